"""C06 — compile-time constant folding agrees with run-time evaluation.

Workload: expression trees over literals (numeric literals of the four kinds in every spelling, booleans, nil)
with + - * / % << >> & | xor, unary minus, `!`, `get`, `(x) or y`, plain / parenthesised / inside a list
literal.  Every tree is rendered twice: folded (`print E`, `print typeof (E)`) and unfolded (every leaf bound
to a variable first, the same tree over the variables).  Oracle: the two renderings agree in value (floats by
bits), run-time kind and typeof text, and the compiler rejects the folded one exactly when the unfolded one
fails at run time.  mv/models/numeric.py is only the referee in witnesses and the batching heuristic."""
import json
import math
import os
import re
import zlib

from .. import core
from ..models import numeric as N

BATCH = 40
SINGLES_PER_JOB = 30
BIN_OPS = ("+", "-", "*", "/", "%", "<<", ">>", "&", "|", "xor")
CONTEXTS = ("plain", "paren", "list")
TYPE_TEXT = N.TYPE_TEXT

F_1E308 = N.float_text(1e308)
F_MAX = N.float_text(1.7976931348623157e308)
F_1EM308 = N.float_text(1e-308)
F_DENORM = N.float_text(5e-324)

LITS = {
    "int": ["0", "1", "2", "3", "7", "8", "31", "32", "33", "127", "128", "255", "256", "32767", "32768", "65536",
            "2147483646", "2147483647", "0x0", "0x1f", "0xff", "0x7fffffff", "0x7fff_ffff", "1_000", "2_147_483_647"],
    # integer literals without the B prefix that do not fit 32 bits are widened to bigint by the compiler
    "widened": ["2147483648", "0x80000000", "4294967296", "0xffff_ffff_ffff_ffff",
                "170141183460469231731687303715884105727"],
    "bigint": ["B0", "B1", "B2", "B3", "B31", "B32", "B127", "B128", "B255", "B2147483647", "B2147483648",
               "B4294967296", "B9223372036854775807", "B9223372036854775808", "B18446744073709551616",
               "B85070591730234615865843651857942052864", "B170141183460469231731687303715884105727",
               "B0xff", "B0x7fff_ffff", "B1_000", "B0x7fffffffffffffffffffffffffffffff",
               # neighbours closer than one ulp of a double (a folder that compares through f64 cannot tell them apart)
               "B9007199254740992", "B9007199254740993", "B18446744073709551617",
               "B170141183460469231731687303715884105726"],
    "float": ["0.0", "0.5", "1.0", "1.5", "2.0", "3.0", "0.1", "1f", "2F", "10f", "255.0", "1_000.5", "2147483648.0",
              "9007199254740992.0", "9007199254740993.0", "0.30000000000000004", "10000000000000000.0",
              F_1EM308, F_DENORM, F_1E308, F_MAX],
    "byte": ["0b0", "0b1", "0b10", "0b111", "0b1000", "0b11111", "0b100000", "0b1111111", "0b10000000",
             "0b11111111", "0b1111_1111", "0b0000_0001"],
}
REDUCED = ["3", "-7", "B5", "0b110", "2.5"]       # leaf set of the exhaustive depth-3 enumeration


# ----------------------------------------------------------------------------- trees

def lit(text):
    return ("lit", text)


def neg(t):
    return ("neg", t)


def atom_of(text):
    return neg(lit(text[1:])) if text.startswith("-") else lit(text)


def is_leaf(t):
    return t[0] in ("lit", "bool", "nil", "optlit")


def children(t):
    if t[0] in ("neg", "not", "get"):
        return [t[1]]
    if t[0] == "or":
        return [t[1], t[2]]
    if t[0] == "bin":
        return [t[2], t[3]]
    return []


def depth(t):
    """Leaves and negated literals count as atoms (depth 1)."""
    if is_leaf(t) or (t[0] == "neg" and t[1][0] == "lit"):
        return 1
    return 1 + max(depth(c) for c in children(t))


def leaves(t, acc=None):
    acc = [] if acc is None else acc
    if is_leaf(t):
        acc.append(t)
    for c in children(t):
        leaves(c, acc)
    return acc


def is_widened(t):
    return t[0] in ("lit", "optlit") and re.match(r"^(0x[0-9a-fA-F_]+|[0-9_]+)$", t[1]) is not None \
        and N.literal_value(t[1])[0] == "bigint"


def model(t):
    """Referee: ("ok", kind, value) | ("fail", why) | ("undefined", why) | ("ok", "nil", None)."""
    k = t[0]
    if k in ("lit", "optlit"):
        kind, v = N.literal_value(t[1])
        if kind == "invalid":
            return ("fail", "literal %s fits no kind" % t[1])
        return ("ok", kind, v)
    if k == "bool":
        return ("ok", "bool", t[1] == "true")
    if k == "nil":
        return ("ok", "nil", None)
    if k == "neg" or k == "not":
        x = model(t[1])
        if x[0] != "ok":
            return x
        if x[1] == "nil":
            return ("undefined", "operator on nil")
        return N.unary("neg" if k == "neg" else "!", (x[1], x[2]))
    if k == "get":
        x = model(t[1])
        if x[0] != "ok":
            return x
        return ("fail", "get of nil") if x[1] == "nil" else x
    if k == "or":
        x = model(t[1])
        if x[0] != "ok":
            return x
        return model(t[2]) if x[1] == "nil" else x
    if k == "bin":
        x, y = model(t[2]), model(t[3])
        for s in (x, y):
            if s[0] != "ok":
                return s
        if x[1] in ("nil", "bool") or y[1] in ("nil", "bool"):
            return ("undefined", "numeric operator on %s/%s" % (x[1], y[1]))
        return N.binop(t[1], (x[1], x[2]), (y[1], y[2]))
    raise ValueError(t)


def describe(t, bare=False):
    """Kind descriptor of a subtree for signatures."""
    if t[0] == "nil":
        return "nil"
    if t[0] == "optlit":
        return N.literal_value(t[1])[0] + "?"
    if bare and is_widened(t):
        return "bigint(widened int literal)"
    m = model(t)
    if t[0] == "neg" and m[0] == "ok" and m[1] in N.INT_KINDS and m[2] == 0:
        return m[1] + "(-0)"
    return m[1] if m[0] == "ok" else m[0]


def construct(t):
    if t[0] == "bin":
        return N.OP_NAME[t[1]]
    return {"lit": "literal", "optlit": "literal", "bool": "literal", "nil": "literal", "neg": "neg", "not": "not",
            "get": "get", "or": "or"}[t[0]]


def sig_kinds(t):
    if is_leaf(t):
        return describe(t, bare=True)
    ds = []
    for c in children(t):
        d = describe(c)
        if t[0] == "neg":
            m = model(c)
            if m[0] == "ok" and m[1] in N.KINDS and (m[2] < 0 or (m[1] == "float" and math.copysign(1.0, m[2]) < 0)):
                d += "<0"
        ds.append(d)
    return ",".join(ds)


# ----------------------------------------------------------------------------- rendering

def wrap(s, t):
    if is_leaf(t) and t[0] != "nil":
        return s
    if t[0] == "neg" and is_leaf(t[1]):
        return s
    return "(" + s + ")"


def render(t, names=None):
    """Source text of a tree; with `names` (leaf position -> variable) the unfolded form."""
    counter = [0]

    def go(t):
        k = t[0]
        if is_leaf(t):
            i = counter[0]
            counter[0] += 1
            if names is not None:
                return names[i]
            return "nil" if k == "nil" else t[1]
        if k == "neg":
            return "-" + wrap(go(t[1]), t[1]) if not (t[1][0] == "neg") else "-(" + go(t[1]) + ")"
        if k == "not":
            return "!" + wrap(go(t[1]), t[1])
        if k == "get":
            inner = go(t[1])
            return "get " + (inner if is_leaf(t[1]) else "(" + inner + ")")
        if k == "or":
            a = go(t[1])
            b = go(t[2])
            a = a if (is_leaf(t[1]) and names is None) else "(" + a + ")"
            return "%s or %s" % (a, wrap(b, t[2]))
        if k == "bin":
            a = go(t[2])
            b = go(t[3])
            return "%s %s %s" % (wrap(a, t[2]), t[1], wrap(b, t[3]))
        raise ValueError(t)

    return go(t)


def nil_types(t, out, want=None):
    """Declared type of every leaf in left-to-right order (None = inferred from the literal)."""
    k = t[0]
    if k == "nil":
        out.append((want or "int") + "?")
    elif k == "optlit":
        out.append(TYPE_TEXT[N.literal_value(t[1])[0]] + "?")
    elif is_leaf(t):
        out.append(None)
    elif k == "or":
        m = model(t[2])
        fb = TYPE_TEXT.get(m[1]) if m[0] == "ok" else None
        nil_types(t[1], out, fb)
        nil_types(t[2], out, None)
    else:
        for c in children(t):
            nil_types(c, out, want)
    return out


def in_context(e, ctx):
    if ctx == "plain":
        return e, "typeof (%s)" % e
    if ctx == "paren":
        return "(%s)" % e, "typeof ((%s))" % e
    return "[%s, 0b1]" % e, "typeof [%s, 0b1]" % e


FORCED_MODE = {}      # folded text of a pinned tree -> unfolded rendering mode (see program())


def program(cases, folded, tag="k"):
    lines = ['print "@@BEGIN"']
    for ci, (t, ctx) in enumerate(cases):
        if folded:
            e = render(t)
        else:
            # how the operands reach the expression "through variables or parameters" depends on the tree only:
            # 0 one variable per leaf, 1 equal leaves share ONE variable, 2 the expression sits in a function that
            # captures the variables, 3 the operands are parameters of a function
            mode = FORCED_MODE.get(render(t), zlib.crc32(render(t).encode()) % 4)
            ls = leaves(t)
            types = nil_types(t, [])
            names, shared, ptypes = [], {}, []
            for li, (leaf, ty) in enumerate(zip(ls, types)):
                text = "nil" if leaf[0] == "nil" else leaf[1]
                if mode == 1 and (text, ty) in shared:
                    names.append(shared[(text, ty)])
                    continue
                nm = "%s%d_%d" % (tag, ci, li)
                names.append(nm)
                shared[(text, ty)] = nm
                lines.append("%s%s = %s" % (nm, ": " + ty if ty else "", text))
                if ty:
                    ptypes.append(ty)
                elif leaf[0] == "lit" and N.literal_value(leaf[1])[0] in TYPE_TEXT:
                    ptypes.append(TYPE_TEXT[N.literal_value(leaf[1])[0]])
                else:
                    ptypes.append(None)
            if mode == 3 and (None in ptypes or not names):
                mode = 0
            if mode == 2:
                e = render(t, names)
                v, ty = in_context(e, ctx)
                lines += ["%sq%d = fn() {" % (tag, ci), "  print " + v, "  print " + ty, "}", "%sq%d()" % (tag, ci)]
                continue
            if mode == 3:
                ps = ["%sp%d_%d" % (tag, ci, li) for li in range(len(names))]
                e = render(t, ps)
                v, ty = in_context(e, ctx)
                lines += ["%sq%d = fn(%s) {" % (tag, ci, ", ".join("%s: %s" % (p_, t_) for p_, t_ in zip(ps, ptypes))),
                          "  print " + v, "  print " + ty, "}", "%sq%d(%s)" % (tag, ci, ", ".join(names))]
                continue
            e = render(t, names)
        v, ty = in_context(e, ctx)
        lines.append("print " + v)
        lines.append("print " + ty)
    lines.append('print "@@END"')
    return "\n".join(lines) + "\n"


def execute(src, ncases):
    r, _, _ = core.run_program({"main.ms": src}, typed=True, cpu=20)
    o = {"res": r}
    if r.cls in ("wall_timeout", "cpu_timeout", "spawn_error"):
        o["status"] = "inconclusive"
        o["why"] = r.cls
        return o
    if r.cls == "panic" and core.BANNER not in r.err and "@@BEGIN" not in r.out:
        o["status"] = "compiler_panic"
        o["why"] = core.first_line_with(r.err + r.out, "panicked at")
        return o
    if core.compile_rejected(r):
        o["status"] = "rejected"
        o["why"] = compile_reason(r.out)
        return o
    lines = r.lines()
    if not lines or lines[0] != "«Str» @@BEGIN":
        o["status"] = "inconclusive"
        o["why"] = "no @@BEGIN: " + (r.out + r.err)[-300:]
        return o
    body = lines[1:]
    done = r.cls == "ok" and body and body[-1] == "«Str» @@END"
    if done:
        body = body[:-1]
    o["lines"] = body
    if done and len(body) == 2 * ncases:
        o["status"] = "ok"
    elif done:
        o["status"] = "inconclusive"
        o["why"] = "%d lines for %d cases" % (len(body), ncases)
    else:
        o["status"] = "stopped"
        o["failure"] = core.classify_failure(r) if r.cls != "ok" else ("internal", "exit 0 without @@END")
        o["why"] = core.cause_of(r.err.split(core.BANNER, 1)[1]) if core.BANNER in r.err else \
            core.first_line_with(r.err, "panicked at")
    return o


def compile_reason(out):
    ls = [l.strip() for l in out.splitlines() if l.strip()]
    keep = [l[2:] for l in ls if l.startswith("= ")]
    for i, l in enumerate(ls):
        if l.startswith("Caused by") and i + 1 < len(ls):
            keep.append(ls[i + 1])
    return " / ".join(keep)[:300] or out[-300:]


# ----------------------------------------------------------------------------- comparison

def parse_line(line):
    """(kind text, canonical value) with floats canonicalised by bit pattern, also inside lists."""
    st = N.split_typed(line)
    if st is None:
        return ("?", line)
    kind, text = st
    if kind in N.KIND_OF_PRINT:
        try:
            v = N.parse_value(N.KIND_OF_PRINT[kind], text)
        except ValueError:
            return (kind, text)
        return (kind, N.fbits(v) if kind == "Float" else v)
    m = re.match(r"^Vector\[(.*)\]$", kind)
    if m and text.startswith("[") and text.endswith("]"):
        ks = m.group(1).split(",")
        vs = text[1:-1].split(", ")
        if len(ks) == len(vs) and all(k in N.KIND_OF_PRINT for k in ks):
            try:
                vals = []
                for k, s in zip(ks, vs):
                    v = N.parse_value(N.KIND_OF_PRINT[k], s)
                    vals.append(N.fbits(v) if k == "Float" else v)
                return (kind, tuple(vals))
            except ValueError:
                pass
    return (kind, text)


def side_state(o, idx=0):
    """State of one rendering of a single case: ('value', vline, tline) | ('rejected', why) | ('fails', why) | None."""
    if o["status"] == "ok":
        return ("value", o["lines"][2 * idx], o["lines"][2 * idx + 1])
    if o["status"] == "rejected":
        return ("rejected", o["why"])
    if o["status"] == "compiler_panic":
        return ("compiler_panic", o["why"])
    if o["status"] == "stopped":
        if len(o["lines"]) >= 2:           # value printed, typeof print failed?  cannot happen (typeof is a constant)
            return ("fails", "after printing: " + o["why"])
        return ("fails", o["why"])
    return None


def referee(t, ctx, f, u):
    m = model(t)
    note = {"model": N.show(m) if not (m[0] == "ok" and m[1] == "nil") else {"status": "value", "kind": "nil"}}
    if ctx == "list" or m[0] == "ok" and m[1] not in N.PRINT_KIND:
        return note

    def agrees(side):
        if side[0] == "value":
            try:
                got = N.parse_printed(side[1])
            except ValueError:
                return False
            return m[0] == "ok" and got[0] == m[1] and N.same_value(m[1], got[1], m[2])
        return m[0] != "ok"

    note["folded_agrees_with_model"] = agrees(f)
    note["unfolded_agrees_with_model"] = agrees(u)
    return note


def judge(t, ctx, f, u, skip_typeof):
    """Deviation class of a single case or None (agreement) / 'outside' (both rejected by the compiler)."""
    if f[0] == "compiler_panic" or u[0] == "compiler_panic":
        return "outside_panic"
    if f[0] == "rejected" and u[0] == "rejected":
        return "outside"
    if f[0] == "rejected":
        return None if u[0] == "fails" else "rejected_but_runtime_value"
    if f[0] == "fails":
        return "folded_fails_at_runtime" if u[0] == "value" else (
            "not_rejected_but_fails_at_runtime" if u[0] == "fails" else "folded_fails_unfolded_rejected")
    # folded yields a value
    if u[0] == "rejected":
        return "unfolded_rejected_by_compiler"
    if u[0] == "fails":
        return "folded_value_but_runtime_failure"
    fv, uv = parse_line(f[1]), parse_line(u[1])
    if fv[0] != uv[0]:
        return "kind_differs"
    if fv[1] != uv[1]:
        return "value_differs"
    if not skip_typeof and f[2] != u[2]:
        return "typeof_differs"
    return None


def typeof_skipped(t, ctx="plain"):
    """Trees whose typeof texts are not compared (an avoidance rule).  None at present."""
    return False


def eval_single(t, ctx, strict=False):
    """strict (catalogue): no avoidance rule is applied to the comparison."""
    fs, us = program([(t, ctx)], True), program([(t, ctx)], False)
    fo, uo = execute(fs, 1), execute(us, 1)
    f, u = side_state(fo), side_state(uo)
    if f is None or u is None:
        return {"inconclusive": (fo.get("why") or uo.get("why") or "?")}
    cls = judge(t, ctx, f, u, (not strict) and typeof_skipped(t, ctx))
    return {"cls": cls, "f": f, "u": u, "fs": fs, "us": us, "runs": 2}


def localise(t, ctx, first, budget, strict=False):
    """Smallest sub-tree (plain context first) that still deviates."""
    cur_t, cur_ctx, cur = t, ctx, first
    runs = 0
    if cur_ctx != "plain":
        r = eval_single(cur_t, "plain", strict)
        runs += r.get("runs", 0)
        if r.get("cls") and not r["cls"].startswith("outside"):
            cur_ctx, cur = "plain", r
    progress = True
    while progress and runs < budget:
        progress = False
        for c in children(cur_t):
            if c[0] == "nil":
                continue
            if c[0] == "optlit":
                c = lit(c[1])
            r = eval_single(c, "plain", strict)
            runs += r.get("runs", 0)
            if r.get("cls") and not r["cls"].startswith("outside"):
                cur_t, cur_ctx, cur = c, "plain", r
                progress = True
                break
    return cur_t, cur_ctx, cur, runs


def make_violation(t, ctx, r, origin):
    sig = "C06:%s:%s:%s%s" % (construct(t), sig_kinds(t), r["cls"], "" if ctx == "plain" else "@" + ctx)
    folded_text = in_context(render(t), ctx)[0]
    return {"sig": sig, "what": "`%s`: %s (folded: %s; unfolded: %s)" % (
        folded_text if len(folded_text) < 80 else folded_text[:77] + "...", r["cls"], brief(r["f"]), brief(r["u"])),
            "rank": len(folded_text),
            "witness": {"tree": t, "context": ctx, "expression": folded_text, "folded": unthread(r["f"]),
                        "unfolded": unthread(r["u"]), "referee": referee(t, ctx, r["f"], r["u"]),
                        "found_in": origin, "files": {"folded.ms": r["fs"], "unfolded.ms": r["us"]}}}


def unthread(side):
    """Side state as a list with thread ids of panic messages masked (deterministic witness text)."""
    return [re.sub(r"\(\d+\) panicked", "(<tid>) panicked", x) if isinstance(x, str) else x for x in side]


def brief(side):
    if side[0] == "value":
        return "%s, %s" % (side[1], side[2].replace("«Str» ", "typeof "))
    return "%s (%s)" % (side[0], re.sub(r"\(\d+\) panicked", "(<tid>) panicked", side[1])[:90])


# ----------------------------------------------------------------------------- worker jobs

def new_summary():
    return {"runs": 0, "compared": 0, "agree_value": 0, "agree_failure": 0, "outside": 0, "violations": [],
            "inconclusive": [], "by_construct": {}, "by_context": {}, "typeof_compared": 0, "hashes": [],
            "sample": None, "compiler_panics": {}, "max_depth": 0, "outside_examples": []}


def record(s, t, ctx, cls, f, u, fs=None, us=None, origin="catalogue"):
    if cls is not None and cls.startswith("outside"):
        s["outside"] += 1
        if cls == "outside_panic":
            why = (f[1] if f[0] == "compiler_panic" else u[1])
            why = re.sub(r"\(\d+\) panicked", "(<tid>) panicked", why)[:160]
            s["compiler_panics"][why] = s["compiler_panics"].get(why, 0) + 1
        elif len(s["outside_examples"]) < 2:
            s["outside_examples"].append("%s: %s" % (render(t), f[1][:120]))
        return
    s["compared"] += 1
    c = construct(t)
    s["by_construct"][c] = s["by_construct"].get(c, 0) + 1
    s["by_context"][ctx] = s["by_context"].get(ctx, 0) + 1
    s["max_depth"] = max(s["max_depth"], depth(t))
    if not is_leaf(t):
        s["hashes"].append(core.h([t, ctx]))
    if cls is None:
        if f[0] == "value":
            s["agree_value"] += 1
            if not typeof_skipped(t, ctx):
                s["typeof_compared"] += 1
            if s["sample"] is None and depth(t) >= 2 and fs and len(fs) < 400:
                s["sample"] = {"folded_program": fs, "unfolded_program": us, "both_print": [f[1], f[2]]}
        else:
            s["agree_failure"] += 1


def handle_single(s, t, ctx, origin):
    strict = origin == "catalogue"
    r = eval_single(t, ctx, strict)
    s["runs"] += r.get("runs", 2)
    if "inconclusive" in r:
        s["inconclusive"].append(r["inconclusive"])
        return
    record(s, t, ctx, r["cls"], r["f"], r["u"], r["fs"], r["us"])
    if r["cls"] and not r["cls"].startswith("outside"):
        lt, lctx, lr, runs = localise(t, ctx, r, 60, strict)
        s["runs"] += runs
        s["violations"].append(make_violation(lt, lctx, lr, origin if (lt, lctx) == (t, ctx) else
                                              "%s (localised from `%s`)" % (origin, in_context(render(t), ctx)[0][:200])))


def job(item):
    kind, origin, cases = item
    s = new_summary()
    if kind == "single":
        for t, ctx in cases:
            handle_single(s, t, ctx, origin)
        return s
    stack = [list(cases)]
    while stack:
        group = stack.pop()
        if len(group) == 1:
            handle_single(s, group[0][0], group[0][1], origin)
            continue
        fs, us = program(group, True), program(group, False)
        fo = execute(fs, len(group))
        s["runs"] += 1
        uo = execute(us, len(group)) if fo["status"] == "ok" else None
        if uo is not None:
            s["runs"] += 1
        if fo["status"] == "ok" and uo["status"] == "ok":
            bad = []
            for i, (t, ctx) in enumerate(group):
                f, u = side_state(fo, i), side_state(uo, i)
                cls = judge(t, ctx, f, u, origin != "catalogue" and typeof_skipped(t, ctx))
                if cls is None:
                    record(s, t, ctx, None, f, u)
                else:
                    bad.append((t, ctx))
            for t, ctx in bad:
                handle_single(s, t, ctx, origin)
            continue
        if (fo["status"] == "inconclusive") or (uo is not None and uo["status"] == "inconclusive"):
            s["inconclusive"].append(fo.get("why") or uo.get("why"))
            continue
        mid = len(group) // 2
        stack.append(group[mid:])
        stack.append(group[:mid])
    return s


def merge(s, sub):
    for k in ("runs", "compared", "agree_value", "agree_failure", "outside", "typeof_compared"):
        s[k] += sub[k]
    for k in ("violations", "inconclusive", "hashes"):
        s[k].extend(sub[k])
    for k in ("by_construct", "by_context", "compiler_panics"):
        for kk, v in sub[k].items():
            s[k][kk] = s[k].get(kk, 0) + v
    s["max_depth"] = max(s["max_depth"], sub["max_depth"])
    s["outside_examples"] = (s["outside_examples"] + sub["outside_examples"])[:4]
    if s["sample"] is None:
        s["sample"] = sub["sample"]


# ----------------------------------------------------------------------------- workload

def atoms(with_widened=True):
    """Literals of every kind and spelling, also negated (except byte)."""
    out = []
    for k in ("int", "float", "bigint") + (("widened",) if with_widened else ()):
        for x in LITS[k]:
            out.append(lit(x))
            out.append(neg(lit(x)))
    for x in LITS["byte"]:
        out.append(lit(x))
    return [a for a in out if not avoid(a)]


def avoid(t):
    """Constructs of unrepaired findings, kept out of every tree outside the catalogue (which pins them).  None at
    present.  Removed when /repo repaired the defects (30218e2, 1268d94, cde7bb8, 5f5c05a): neg_of_negative_constant,
    neg_of_integer_zero, neg_over_lost_bits_shl, or_over_widened_int_literal, typeof_skipped_with_widened_int_literal,
    neg_of_min_constant."""
    return None


def has_op(t, op):
    if t[0] == "bin" and t[1] == op:
        return True
    return any(has_op(c, op) for c in children(t))


def well_typed(t):
    """False for trees the type checker rejects in both renderings (float in bitwise/shift, minus byte...)."""
    m = model(t)
    if m[0] == "undefined":
        return False
    for c in children(t):
        if not well_typed(c):
            return False
    if t[0] == "bin" and t[1] in N.BITWISE + N.SHIFT:
        for c in (t[2], t[3]):
            if static_kind(c) == "float":
                return False
    if t[0] == "neg" and static_kind(t[1]) == "byte":
        return False
    return True


def static_kind(t):
    """Kind by the promotion table, available also when the model value is a failure."""
    if t[0] in ("lit", "optlit"):
        return N.literal_value(t[1])[0]
    if t[0] == "bool":
        return "bool"
    if t[0] == "nil":
        return "nil"
    if t[0] in ("neg", "get"):
        return static_kind(t[1])
    if t[0] == "not":
        return "bool"
    if t[0] == "or":
        return static_kind(t[2]) if static_kind(t[1]) == "nil" else static_kind(t[1])
    a, b = static_kind(t[2]), static_kind(t[3])
    if a in N.KINDS and b in N.KINDS:
        return N.promote(a, b)
    return "?"


def catalogue():
    """Pinned single-construct cases (identical in every tier and for every seed)."""
    cases = []
    every = [lit(x) for k in ("int", "widened", "bigint", "float", "byte") for x in LITS[k]]
    for a in every:                                   # bare literals and their negation, all contexts
        for ctx in CONTEXTS:
            cases.append((a, ctx))
        if static_kind(a) != "byte":
            cases.append((neg(a), "plain"))
            cases.append((neg(a), "list"))
    for x in ("5", "2147483647", "1.5", "0.0", "B5"):        # nested minus
        cases.append((neg(neg(lit(x))), "plain"))
        cases.append((neg(neg(neg(lit(x)))), "plain"))
    for a, b in (("1", "2"), ("B1", "B2"), ("1.5", "2.0"), ("2147483647", "1"), ("B9223372036854775807", "B1")):
        for op in ("+", "-", "*"):
            cases.append((neg(("bin", op, lit(a), lit(b))), "plain"))     # minus of a folded sub-expression
    cases.append((neg(("bin", "-", lit("0"), lit("5"))), "plain"))
    cases.append((neg(("bin", "-", lit("B0"), lit("B5"))), "plain"))
    cases.append((neg(("bin", "*", lit("0.0"), neg(lit("1.5")))), "plain"))
    # minus of a constant that is the minimum of its kind (repaired finding 5f5c05a: compiled, then failed at run time)
    cases.append((neg(("bin", "-", neg(lit("2147483647")), lit("1"))), "plain"))
    cases.append((neg(("bin", "-", neg(lit("B170141183460469231731687303715884105727")), lit("B1"))), "plain"))
    # the text "-0" of a negated integer zero (repaired finding): was read as -0.0 by the float folder and refused
    # as a shift amount
    cases.append((("bin", "*", neg(lit("0")), lit("1.5")), "plain"))
    cases.append((("bin", "<<", lit("1"), neg(lit("0"))), "plain"))
    # static operator table for bitwise operators (former C02 finding, repaired) seen through a folded list element
    cases.append((("bin", "&", lit("0b1"), lit("0b1")), "list"))
    cases.append((("bin", "&", lit("1"), lit("B2")), "list"))
    # comparisons of constants that are closer together than one ulp of a double (and of their int / float neighbours)
    near = [("B9007199254740992", "B9007199254740993"), ("B18446744073709551616", "B18446744073709551617"),
            ("B170141183460469231731687303715884105726", "B170141183460469231731687303715884105727"),
            ("9007199254740993", "9007199254740992.0"), ("B9007199254740993", "9007199254740992.0"),
            ("2147483647", "B2147483648"), ("16777217", "16777216.0")]
    for a, b in near:
        for op in ("<", "<=", ">", ">=", "==", "!="):
            cases.append((("bin", op, lit(a), lit(b)), "plain"))
            cases.append((("bin", op, lit(b), lit(a)), "plain"))
            cases.append((("bin", op, neg(lit(a)), neg(lit(b))), "plain"))
    # round 7: X op W(Y op2 Z) — a unary wrapper around a binary operation on the RIGHT of another operation, all three
    # leaves distinct (a register handed down to the wrapper's operand must not overwrite the parked left operand);
    # rendered with one variable per leaf (mode 0; the `*` trees inside a capturing function, mode 2)
    for x, y, z in (("9", "5", "3"), ("B9", "B5", "B3"), ("7.5", "2.5", "1.25"), ("100", "7", "9")):
        for op in ("+", "-", "*"):
            for op2 in ("+", "-", "*"):
                inner = ("bin", op2, lit(y), lit(z))
                for wrapped in (neg(inner), neg(neg(inner))):
                    for t in (("bin", op, lit(x), wrapped), ("bin", op, wrapped, lit(x)), ("bin", op, ("bin", op2, lit(x), lit(z)), wrapped)):
                        FORCED_MODE[render(t)] = 0 if op != "*" else 2
                        cases.append((t, "plain"))
                        cases.append((t, "list"))
    # the SAME variable on both sides of every operator (`x - x`, `x xor x`, `x / x` ...), per kind
    for x in ("5", "0", "2147483647", "B7", "B0", "B170141183460469231731687303715884105727", "1.5", "0.0", "0b101", "0b0",
              "0b11111111", "2147483648"):
        for op in ("+", "-", "*", "/", "%", "<<", ">>", "&", "|", "xor", "<", "<=", "==", "!="):
            t = ("bin", op, lit(x), lit(x))
            FORCED_MODE[render(t)] = 1
            cases.append((t, "plain"))
            t2 = ("bin", "|" if static_kind(lit(x)) != "float" else "+", t, lit(x)) if op in ("-", "xor", "&") else None
            if t2 is not None:
                FORCED_MODE[render(t2)] = 1
                cases.append((t2, "plain"))
    cases.append((lit("170141183460469231731687303715884105728"), "plain"))       # fits no kind
    cases.append((lit("B170141183460469231731687303715884105728"), "plain"))
    cases.append((lit("0b100000000"), "plain"))                                  # 9 binary digits: a diagnostic
    for b in ("true", "false"):
        t = ("bool", b)
        cases += [(t, "plain"), (("not", t), "plain"), (("not", ("not", t)), "plain"), (("not", t), "list"),
                  (("not", ("not", ("not", t))), "paren")]
    samples = {"int": ["5", "0", "2147483647"], "bigint": ["B7", "B170141183460469231731687303715884105727"],
               "float": ["1.5", "0.0"], "byte": ["0b101", "0b11111111"], "widened": ["2147483648"]}
    cases.append((("get", ("nil",)), "plain"))
    cases.append((("get", ("nil",)), "paren"))
    for k, xs in samples.items():
        for x in xs:
            for ctx in ("plain", "list"):
                cases.append((("get", lit(x)), ctx))
                cases.append((("get", ("optlit", x)), ctx))
                for y in xs:
                    cases.append((("or", ("nil",), lit(y)), ctx))
                    cases.append((("or", lit(x), lit(y)), ctx))
                    cases.append((("or", ("optlit", x), lit(y)), ctx))
            cases.append((("get", ("or", ("nil",), lit(x))), "plain"))
            cases.append((("or", ("nil",), neg(lit(x))) if k in ("int", "float") else ("or", ("nil",), lit(x)), "paren"))
            cases.append((("bin", "+", ("or", ("nil",), lit(x)), lit(x)), "plain"))
            cases.append((("bin", "*", ("get", lit(x)), ("or", ("optlit", x), lit(x))), "plain"))
            if k in ("int", "float"):
                cases.append((neg(("or", ("nil",), lit(x))), "plain"))
                cases.append((neg(("get", lit(x))), "plain"))
    return cases


catalogue()        # fills FORCED_MODE at import time, so that a replay renders a pinned tree the same way


def matrix(step):
    """Every operator over every ordered pair of atoms (step 1) or the fixed slice i*31+j*17+salt == 0 mod step."""
    at = atoms()
    out = []
    for oi, op in enumerate(BIN_OPS):
        for i, a in enumerate(at):
            for j, b in enumerate(at):
                t = ("bin", op, a, b)
                if (i * 31 + j * 17 + oi * 7) % step:
                    continue
                if not well_typed(t):
                    if (i + j) % 97 == 0:
                        out.append((t, "plain"))       # a few ill-typed trees: both renderings must be rejected
                    continue
                out.append((t, CONTEXTS[(i + 2 * j + oi) % 7 % 3] if (i + j) % 4 == 0 else "plain"))
    return out


def depth3(leafs):
    """All trees op(X, Y) with X, Y in: leaves, op'(leaf, leaf)  (well-typed, avoidance rules applied)."""
    base = [atom_of(x) for x in leafs]
    level2 = list(base)
    for op in BIN_OPS:
        for a in base:
            for b in base:
                t = ("bin", op, a, b)
                if well_typed(t):
                    level2.append(t)
    out = []
    for op in BIN_OPS:
        for x in level2:
            for y in level2:
                if is_simple(x) and is_simple(y):
                    continue                       # depth <= 2: part of the matrix
                t = ("bin", op, x, y)
                if well_typed(t) and not avoid(t):
                    out.append((t, "plain"))
    return out


def is_simple(t):
    return depth(t) == 1


def random_tree(rng, d, at, want_numeric=True):
    r = rng.random()
    if d <= 1 or r < 0.12:
        return rng.choice(at)
    if r < 0.80:
        op = rng.choice(BIN_OPS)
        return ("bin", op, random_tree(rng, d - 1, at), random_tree(rng, d - 1, at))
    if r < 0.88:
        return neg(random_tree(rng, d - 1, at))
    if r < 0.93:
        return ("get", random_tree(rng, d - 1, at))
    x = random_tree(rng, d - 1, at)
    k = static_kind(x)
    fb = [a for a in at if static_kind(a) == k and a[0] == "lit"]
    if not fb:
        return x
    prim = rng.choice([("nil",), x])
    return ("or", prim, rng.choice(fb))


def sampled(rng, n):
    at = atoms()
    out, skipped = [], {}
    tries = 0
    while len(out) < n and tries < n * 40:
        tries += 1
        t = random_tree(rng, 3, at)
        if depth(t) < 3:
            continue
        if not well_typed(t):
            skipped["ill_typed"] = skipped.get("ill_typed", 0) + 1
            continue
        why = avoid(t)
        if why:
            skipped[why] = skipped.get(why, 0) + 1
            continue
        m = model(t)
        if m[0] != "ok" and rng.random() < 0.7:        # most random deep trees overflow: keep a share of them
            skipped["model_failure_thinned"] = skipped.get("model_failure_thinned", 0) + 1
            continue
        out.append((t, rng.choice(CONTEXTS) if rng.random() < 0.3 else "plain"))
    return out, skipped


def make_jobs(cases, origin):
    ok, single = [], []
    for c in cases:
        m = model(c[0])
        good = m[0] == "ok" and not avoid(c[0]) and not any(
            N.literal_value(l[1])[0] == "invalid" for l in leaves(c[0]) if l[0] in ("lit", "optlit"))
        (ok if good else single).append(c)
    jobs = [("batch", origin, ok[i:i + BATCH]) for i in range(0, len(ok), BATCH)]
    jobs += [("single", origin, single[i:i + SINGLES_PER_JOB]) for i in range(0, len(single), SINGLES_PER_JOB)]
    return jobs


# a literal-only sub-expression that cannot succeed at run time, next to an operand that is made of literals but is
# not itself a number constant (an element of a literal list, a built-in on a literal): "the compiler rejects a
# literal expression as failing exactly when its run-time evaluation would fail"
DOOMED = [("2147483647 + 1", "int overflow"), ("7 % 0", "zero divisor"), ("1 << 32", "shift amount"), ("0b11111111 + 0b1", "byte overflow"),
          ("-(0 - 2147483647 - 1)", "negation overflow")]
NEIGHBOURS = [("list_element", "[10, 20][1]"), ("nested_list_element", "[[4, 5], [6]][0][1]"), ("str_len", '"abc".len()'),
              ("parenthesised_constant", "(20)"), ("sum_of_constants", "(7 + 13)")]


def doomed_operand_programs():
    out = []
    for dn, (d, _why) in enumerate(DOOMED):
        for nn, n in NEIGHBOURS:
            for side in ("left", "right"):
                for op in ("-", "*", "+"):
                    e = "%s %s (%s)" % (n, op, d) if side == "left" else "(%s) %s %s" % (d, op, n)
                    out.append(("doomed%d:%s:%s:%s" % (dn, nn, side, N.OP_NAME[op]), e))
        out.append(("doomed%d:list_literal_element" % dn, "[[4, 5][0] * (%s), 1]" % d))
    return out


def doomed_job(item):
    name, e = item
    src = 'print "@@BEGIN"\nx = %s\nprint x\n' % e
    r, _, _ = core.run_program({"main.ms": src}, typed=True, cpu=20)
    if r.cls in ("wall_timeout", "cpu_timeout", "spawn_error"):
        return {"name": name, "verdict": "inconclusive", "why": r.cls}
    rejected = core.compile_rejected(r) and "@@BEGIN" not in r.out
    return {"name": name, "expr": e, "verdict": "rejected" if rejected else ("runs_then_fails" if r.cls != "ok" else "runs"),
            "src": src, "run": r.brief()}


def run(ctx):
    out = core.Outcome()
    cat = catalogue()
    mat = matrix(1 if not ctx.quick else 6)
    jobs = make_jobs(cat, "catalogue") + make_jobs(mat, "one-operator matrix")
    n_d3 = 0
    if not ctx.quick:
        d3 = depth3(REDUCED)
        n_d3 = len(d3)
        jobs += make_jobs(d3, "depth-3 enumeration")
    smp, skipped = sampled(ctx.rng("trees"), ctx.n(5000, 40000))
    jobs += make_jobs(smp, "sampled depth-3 tree")
    results = core.pmap(job, jobs, chunksize=1)
    total = new_summary()
    for status, res in results:
        if status != "ok":
            out.inconclusive.append(str(res)[-500:])
            continue
        merge(total, res)
    doomed = core.pmap(doomed_job, doomed_operand_programs(), chunksize=8)
    n_doomed = 0
    for status, res in doomed:
        if status != "ok":
            out.inconclusive.append(str(res)[-300:])
            continue
        total["runs"] += 1
        if res["verdict"] == "inconclusive":
            out.inconclusive.append("%s: %s" % (res["name"], res["why"]))
        elif res["verdict"] == "rejected":
            n_doomed += 1
        else:
            out.violations.append(core.Violation(
                "C06:%s:doomed_subexpression_not_rejected" % res["name"].split(":", 1)[1],
                "`%s`: contains a literal sub-expression that cannot succeed, but the compiler accepts it (%s)" % (
                    res["expr"], res["verdict"]),
                {"expression": res["expr"], "observed": res["verdict"], "files": {"main.ms": res["src"]}, "run": res["run"]}))
    out.coverage["doomed_subexpressions_rejected_at_compile_time"] = n_doomed
    out.evaluations = total["runs"]
    out.distinct = set(total["hashes"])
    out.inconclusive.extend(total["inconclusive"])
    best, fam = {}, {}
    for v in total["violations"]:
        fam[v["sig"]] = fam.get(v["sig"], 0) + 1
        key = (v["rank"], v["witness"]["expression"])
        if v["sig"] not in best or key < (best[v["sig"]]["rank"], best[v["sig"]]["witness"]["expression"]):
            best[v["sig"]] = v
    for sig in sorted(best):
        v = best[sig]
        if not v["witness"]["found_in"].startswith("catalogue"):
            v["witness"]["found_in"] = v["witness"]["found_in"].split(" (localised")[0] + " (localised)"
        out.violations.append(core.Violation(sig, v["what"], v["witness"]))
    for status, res in results:
        if status == "ok" and res["sample"] and len(out.samples) < 3:
            out.samples.append(res["sample"])
    out.coverage.update({
        "twin_cases_compared": total["compared"], "agree_on_value_kind_typeof": total["agree_value"],
        "agree_on_failure(compiler rejects <=> run time fails)": total["agree_failure"],
        "typeof_texts_compared": total["typeof_compared"],
        "both_renderings_rejected_by_type_checker(outside)": total["outside"],
        "outside_examples": total["outside_examples"],
        "compiler_panics_seen(C16 territory, not judged here)": total["compiler_panics"],
        "cases_per_construct": dict(sorted(total["by_construct"].items())),
        "cases_per_context": dict(sorted(total["by_context"].items())),
        "max_tree_depth": total["max_depth"],
        "catalogue_cases": len(cat), "one_operator_matrix_cases": len(mat), "depth3_enumerated": n_d3,
        "depth3_sampled": len(smp), "sampler_skipped": skipped,
        "literals_per_kind": {k: len(v) for k, v in LITS.items()},
        "avoidance_rules": {},
        "deviation_cases_per_signature": dict(sorted(fam.items())),
    })
    out.exhaustive = (not ctx.quick)
    out.rule = ("case = (expression tree over literals, context) rendered folded (`print E`, `print typeof (E)`) and "
                "unfolded (leaves bound to variables first); evaluations = executions of the real binary. Compared: "
                "printed value (floats by bits), run-time kind, typeof text, and compiler-rejects <=> run-time-fails. "
                "Catalogue of single constructs; one-operator matrix = 10 operators x all ordered pairs of %d atoms "
                "(literals in all spellings, also negated)%s; depth-3 trees %s. Non-trivial/distinct = distinct "
                "(tree, context) with at least one operator that both renderings decided (value or failure); trees that "
                "the type checker rejects in both renderings are outside and not counted."
                % (len(atoms()), "" if not ctx.quick else ", every 6th pair (fixed slice)",
                   "enumerated over the leaves %s and sampled over all atoms" % REDUCED if not ctx.quick else
                   "sampled (seeded) over all atoms"))
    out.assumptions = [
        "unfolded rendering: `v = <literal>` then the same tree over the variables; nil leaves are declared `v: T? = nil` "
        "with T the kind of the fallback (int for a bare `get nil`)",
        "negated literals are atoms (`-5` folded is compared with `-v` over `v = 5`)",
        "a folded program that compiles but stops at run time counts as 'not rejected'",
        "compiler panics on a literal expression are C16's subject and only counted here",
        "dev-profile build",
    ]
    if os.environ.get("VERIF_MODEL_BREAK"):
        out.assumptions.append("MODEL DELIBERATELY BROKEN: VERIF_MODEL_BREAK=" + os.environ["VERIF_MODEL_BREAK"])
    if total["compared"] == 0:
        out.observed_nothing = "no twin pair was compared"
    return out


def replay(path):
    with open(os.path.join(path, "case.json")) as f:
        case = json.load(f)
    w = case["witness"]

    def tup(x):
        return tuple(tup(i) for i in x) if isinstance(x, list) else x

    t, ctx = tup(w["tree"]), w["context"]
    r = eval_single(t, ctx, True)
    if "inconclusive" in r:
        print("inconclusive:", r["inconclusive"])
        return 2
    print("--- folded\n" + r["fs"] + "--- unfolded\n" + r["us"])
    print("folded  :", r["f"])
    print("unfolded:", r["u"])
    print("referee :", json.dumps(referee(t, ctx, r["f"], r["u"]), ensure_ascii=False))
    bad = r["cls"] and not r["cls"].startswith("outside")
    print("DIFFERS: " + r["cls"] if bad else "AGREES")
    return 1 if bad else 0
