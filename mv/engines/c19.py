"""C19 — foreign calls pass the operand stack unchanged and deliver result or error.

Workload: hand-assembled *binary* bytecode (`f <name>\\0`, `<opcode byte>[ <args>]\\0`…, `e\\0`) whose
`__module__` pushes an argument vector with `make_*`, executes `call_lib <probe.so> <function>`, prints the
operand stack (`printn *`), pushes + prints a sentinel and returns.  Three independent observers per call:
the harness (what it assembled), the H-FFI hook inside the interpreter (`L`/`R` records of the trace log)
and the probe library itself (log named by MSCRIPT_FFI_PROBE_LOG).  Oracle = conservation:

    assembled vector == `L` snapshot == probe log   (length, order, kind, value; element by element)
    operand stack after the call == [value returned by the probe] or []          (print + next call + `I` oplen)
    raise / missing library / missing symbol: exit class `fail`, interpreter banner, message carries the
    text, the sentinel is absent and no `I` event follows the call (no later instruction ran)

plus valgrind memcheck on a sample of every class (an invalid access at the `unsafe`/dlopen boundary is a
violation of "unchanged")."""
import json
import math
import os
import re
import struct
from decimal import Decimal

from .. import core, ffi, tracecheck

OP = tracecheck.OP
KINDS = ["int", "bigint", "float", "byte", "bool", "str"]
DEBUG_NAME = {"int": "Int", "bigint": "BigInt", "float": "Float", "byte": "Byte", "bool": "Bool", "str": "Str"}
KIND_OF_DEBUG = {v: k for k, v in DEBUG_NAME.items()}
SENTINEL = "@@C19-AFTER-CALL@@"

I128_MAX = (1 << 127) - 1
VALUES = {
    "int": [0, 1, -1, 42, 2147483647, -2147483648, 65536, -7],
    "bigint": [0, 1, -1, 2147483648, -2147483649, 9223372036854775808, -9223372036854775809, I128_MAX,
               -I128_MAX - 1, 10 ** 30],
    "float": [0.0, -0.0, 1.0, 1.5, -2.25, 0.1, 1e300, -1e300, 5e-324, 1.7976931348623157e308, 1e16, 1e15,
              0.0001, 0.00001, 123456789.125, float("inf"), float("-inf"), float("nan"), 3.141592653589793],
    "byte": [0, 1, 5, 127, 128, 170, 255],
    "bool": [True, False],
    "str": ["", "a", "hello world", 'say "hi"', "back\\slash", "tab\there", "line\nbreak", "cr\rhere",
            "héllo wörld ✓", "日本語", " leading", "trailing ", "a, b", "*", "it's",
            "emoji \U0001f389 done", '"', "\\", '\\"', "\\n", "nbsp inside", "  ", "0b101", "-5", "true",
            "x" * 300, 'mix "q" \\ \t \n ü end', "#", "e", "f name"],
}

# ---- the fixed answers of /verif/ffi_probe/src/lib.rs (kept in step by hand; a drift fires `result_differs`)
CONST = {
    "const_int": ("int", -123456789),
    "const_bigint": ("bigint", -170141183460469231731687303715884105727),
    "const_float": ("float", -6.02214076e23),
    "const_byte": ("byte", 0b10100101),
    "const_bool": ("bool", True),
    "const_str": ("str", 'probe says: "héllo, wörld" ✓'),
}
RAISE_MSG = 'probe raised: "bad things" happened ✗ (code 42)'
FUNCS = ffi.FUNCTIONS
VALUE_FUNCS = ["echo_first", "echo_last"] + sorted(CONST)


TAGS = {"A": "", "B": "B:", "C": "C:"}
SHIFT = {"A": 0, "B": 1000, "C": 2000}
LAYOUT = {}      # key -> (path, build variant or None); filled by run()/replay() (ffi.install_layout)


def probe_model(func, stack, variant="A"):
    """What the named build of the probe answers: ('value', val) | ('none',) | ('raise', message)."""
    if func == "echo_first":
        return ("value", stack[0]) if stack else ("none",)
    if func == "echo_last":
        return ("value", stack[-1]) if stack else ("none",)
    if func == "const_int":
        return ("value", ("int", CONST[func][1] + SHIFT[variant]))
    if func == "const_str":
        return ("value", ("str", TAGS[variant] + CONST[func][1]))
    if func in CONST:
        return ("value", CONST[func])
    if func == "no_value":
        return ("none",)
    if func == "raise":
        return ("raise", TAGS[variant] + RAISE_MSG)
    if func == "only_in_a" and variant == "A":
        return ("value", ("int", 11))
    if func == "only_in_b" and variant == "B":
        return ("value", ("int", 22))
    raise KeyError(func)


def resolve(target, lib):
    """Library named by a segment -> (path written into call_lib, build variant or None, fault kind or None)."""
    if target == "probe":
        return lib, "A", None
    if target == "missing":
        return os.path.join(os.path.dirname(lib), "libdoes_not_exist.so"), None, "missing"
    if target == "notalib":
        return "not_a_library.so", None, "notalib"
    if target == "dir":
        return ".", None, "dir"
    path, variant = LAYOUT[target]
    return path, variant, (None if variant else "missing")


def has_symbol(func, variant):
    return func in FUNCS or ffi.ONLY.get(func) == variant


# ----------------------------------------------------------------------------- assembling

def quote_arg(s):
    """Encode one instruction argument the way `split_string` decodes it: wrapped in `"`, with
    `\\\\ \\" \\n \\r \\t` escapes (whitespace inside quotes is literal; NUL cannot be expressed)."""
    out = ['"']
    for c in s:
        if c == "\\":
            out.append("\\\\")
        elif c == '"':
            out.append('\\"')
        elif c == "\n":
            out.append("\\n")
        elif c == "\r":
            out.append("\\r")
        elif c == "\t":
            out.append("\\t")
        else:
            out.append(c)
    out.append('"')
    return "".join(out)


def bare_ok(s):
    return bool(s) and not any(c.isspace() or c in '"\\' for c in s)


def float_text(x, form):
    if math.isnan(x):
        return "NaN"
    if math.isinf(x):
        return "inf" if x > 0 else "-inf"
    if form == 1 and x == int(x) and abs(x) < 1e15:
        return ("-" if math.copysign(1, x) < 0 else "") + "%d" % abs(int(x))     # `-0`, `1`
    return repr(x)


def make_instr(val, form=0):
    """(opcode, [argument text]) pushing `val`; `form` selects among equivalent spellings."""
    kind, v = val
    if kind == "int":
        return OP["make_int"], [str(v)]
    if kind == "bigint":
        return OP["make_bigint"], [str(v)]
    if kind == "float":
        return OP["make_float"], [float_text(v, form)]
    if kind == "byte":
        return OP["make_byte"], ["0b" + bin(v)[2:] if form == 0 else str(v)]      # `0b101` or decimal
    if kind == "bool":
        return OP["make_bool"], ["true" if v else "false"]
    if kind == "str":
        if v == "" and form == 1:
            return OP["make_str"], []                      # zero arguments = empty string
        if form == 2 and bare_ok(v):
            return OP["make_str"], [v]                     # unquoted token
        return OP["make_str"], [quote_arg(v)]
    raise ValueError(kind)


def assemble(instrs, name="__module__"):
    out = [b"f " + name.encode() + b"\0"]
    for opc, args in instrs:
        line = bytes([tracecheck.real_byte(opc)])
        if args:
            line += b" " + " ".join(args).encode("utf-8")
        assert b"\0" not in line[1:], "NUL cannot be encoded"
        out.append(line + b"\0")
    out.append(b"e\0")
    return b"".join(out)


def build_program(case, lib):
    """Returns (bytes, plan).  plan: list of steps the oracle walks:
    ('call', ip, lib_path, func, stack_before) / ('print', ip, stack) / ('sentinel', ip)."""
    instrs, plan = [], []
    stack = []
    for seg in case["segments"]:
        for j, val in enumerate(seg["push"]):
            instrs.append(make_instr(val, seg.get("forms", [0] * len(seg["push"]))[j]))
            stack.append(val)
        target = seg["lib"]
        path, variant, fault = resolve(target, lib)
        func = seg["func"]
        plan.append(("call", len(instrs), target, func, list(stack)))
        instrs.append((OP["call_lib"], [path if bare_ok(path) else quote_arg(path),
                                        func if bare_ok(func) else quote_arg(func)]))
        if variant and has_symbol(func, variant):
            r = probe_model(func, stack, variant)
        else:
            r = ("fault", fault or "missing_symbol")
        if r[0] == "value":
            stack = [r[1]]
        elif r[0] == "none":
            stack = []
        else:
            plan.append(("stop", r))
            break
        plan.append(("print", len(instrs), list(stack)))
        instrs.append((OP["printn"], ["*"]))
    else:
        instrs.append((OP["make_str"], [quote_arg(SENTINEL)]))
        stack.append(("str", SENTINEL))
        plan.append(("print", len(instrs), list(stack)))
        instrs.append((OP["printn"], ["*"]))
        instrs.append((OP["void"], []))
        instrs.append((OP["ret"], []))
        return assemble(instrs), plan
    # the program text still continues after a failing call: these must never run
    instrs.append((OP["printn"], ["*"]))
    instrs.append((OP["make_str"], [quote_arg(SENTINEL)]))
    instrs.append((OP["printn"], ["*"]))
    instrs.append((OP["void"], []))
    instrs.append((OP["ret"], []))
    return assemble(instrs), plan


# ----------------------------------------------------------------------------- reading the observers

def rust_float_display(x):
    """`{}` of an f64: shortest round-trip digits, positional, no trailing `.0`."""
    if math.isnan(x):
        return "NaN"
    if math.isinf(x):
        return "inf" if x > 0 else "-inf"
    s = format(Decimal(repr(x)), "f")
    if "." in s:
        s = s.rstrip("0").rstrip(".")
    return s


def display(val):
    kind, v = val
    if kind in ("int", "bigint"):
        return str(v)
    if kind == "float":
        return rust_float_display(v)
    if kind == "byte":
        return "0b" + bin(v)[2:]
    if kind == "bool":
        return "true" if v else "false"
    return v


def printed(stack):
    """Text of `printn *` with MSCRIPT_VERIF_TYPED_PRINT=1."""
    if not stack:
        return "\n"
    return "«%s» " % DEBUG_NAME[stack[0][0]] + ", ".join(display(v) for v in stack) + "\n"


_ESC = {"n": "\n", "r": "\r", "t": "\t", "0": "\0", "\\": "\\", '"': '"', "'": "'"}


def _scan_str(text, i):
    """text[i] == '"' (Rust Debug string): returns (value, index after the closing quote)."""
    assert text[i] == '"'
    i += 1
    out = []
    while True:
        c = text[i]
        if c == '"':
            return "".join(out), i + 1
        if c == "\\":
            n = text[i + 1]
            if n == "u":
                j = text.index("}", i)
                out.append(chr(int(text[i + 3:j], 16)))
                i = j + 1
                continue
            out.append(_ESC[n])
            i += 2
            continue
        out.append(c)
        i += 1


def _scan_prim(text, i):
    """Debug of one Primitive at text[i:]: returns ((kind, value), next index)."""
    m = re.compile(r"([A-Za-z]+)\(").match(text, i)
    if not m:
        raise ValueError("no primitive at %d in %r" % (i, text[:200]))
    name = m.group(1)
    j = m.end()
    if name == "Str":
        s, j = _scan_str(text, j)
        if text[j] != ")":
            raise ValueError("unterminated Str in %r" % text[:200])
        return ("str", s), j + 1
    k = text.index(")", j)
    body = text[j:k]
    if name in ("Int", "BigInt", "Byte"):
        return (KIND_OF_DEBUG[name], int(body)), k + 1
    if name == "Float":
        return ("float", float(body)), k + 1
    if name == "Bool":
        if body not in ("true", "false"):
            raise ValueError("bad Bool %r" % body)
        return ("bool", body == "true"), k + 1
    raise ValueError("unexpected primitive %s in %r" % (name, text[:200]))


def parse_prim(text):
    val, j = _scan_prim(text, 0)
    if j != len(text):
        raise ValueError("trailing text after primitive: %r" % text[:200])
    return val


def parse_slice(text):
    """`[Int(5), Str("a")]` -> [(kind, value)]"""
    if not (text.startswith("[") and text.endswith("]")):
        raise ValueError("not a slice: %r" % text[:200])
    vals, i = [], 1
    end = len(text) - 1
    while i < end:
        val, i = _scan_prim(text, i)
        vals.append(val)
        if text.startswith(", ", i):
            i += 2
        elif i != end:
            raise ValueError("junk in slice at %d: %r" % (i, text[:200]))
    return vals


def parse_result(text):
    """Debug of ReturnValue -> ('value', val) | ('none',) | ('raise', msg)"""
    if text == "NoValue":
        return ("none",)
    if text.startswith("Value(") and text.endswith(")"):
        return ("value", parse_prim(text[6:-1]))
    if text.startswith("FFIError(") and text.endswith(")"):
        s, j = _scan_str(text, 9)
        return ("raise", s)
    raise ValueError("unexpected result %r" % text[:200])


def same(a, b):
    """Kind and value identical (floats by bit pattern, every NaN equal to every NaN)."""
    if a[0] != b[0]:
        return False
    if a[0] == "float":
        x, y = float(a[1]), float(b[1])
        if math.isnan(x) or math.isnan(y):
            return math.isnan(x) and math.isnan(y)
        return struct.pack("<d", x) == struct.pack("<d", y)
    return type(a[1]) is type(b[1]) and a[1] == b[1]


def same_vec(a, b):
    return len(a) == len(b) and all(same(x, y) for x, y in zip(a, b))


def show(vec):
    return "[" + ", ".join("%s:%r" % (k, v if k != "str" or len(v) < 60 else v[:57] + "...") for k, v in vec) + "]"


_LREC = re.compile(r'^L "((?:[^"\\]|\\.)*)" "((?:[^"\\]|\\.)*)" (\d+)((?: "(?:[^"\\]|\\.)*")*)$')


def read_trace(text):
    """-> (events in order: ('I', ip, opcode, oplen) | ('L', lib, func, n, [arg text]) | ('R', text) |
    ('X', how), truncated?)"""
    events = []
    lines = text.split("\n")
    truncated = bool(lines and lines[-1] != "")
    omap = {}
    for line in lines[:-1]:
        if not line:
            continue
        t = line[0]
        if t == "O":
            tracecheck.o_record(line, omap)
        elif t == "I":
            p = line.split(" ")
            if len(p) == 6:
                events.append(("I", int(p[2]), omap.get(int(p[3]), int(p[3])), int(p[5])))
        elif t == "L":
            m = _LREC.match(line)
            if not m:
                events.append(("L?", line))
                continue
            args = [tracecheck._unq(s) for s in tracecheck._STR.findall(m.group(4))]
            events.append(("L", tracecheck._unq(m.group(1)), tracecheck._unq(m.group(2)), int(m.group(3)), args))
        elif t == "R":
            strs = tracecheck._STR.findall(line)
            events.append(("R", tracecheck._unq(strs[0]) if strs else None))
        elif t == "X":
            p = line.split(" ")
            if len(p) == 4:
                events.append(("X", p[2]))
    return events, truncated


# ----------------------------------------------------------------------------- one case

def kinds_class(vec):
    if len(vec) <= 2:
        return "args/" + (",".join(k for k, _ in vec) or "none")
    return "args/len%d" % len(vec)


FAULT_TEXT = {"missing": "Could not open FFI Library", "notalib": "Could not open FFI Library",
              "dir": "Could not open FFI Library", "missing_symbol": "Could not find symbol"}


def decide(case, plan, res, trace_text, probe_text, lib):
    """The oracle.  Returns (problems [(class, deviation, detail)], counters)."""
    problems = []
    cnt = {"args_compared": 0, "ffi_L": 0, "ffi_R": 0, "probe_records": 0, "instr_events": 0, "oplen_checks": 0,
           "results_compared": 0, "prints_compared": 0, "stops_checked": 0}

    def bad(cls, dev, detail):
        problems.append((cls, dev, detail))

    events, truncated = read_trace(trace_text or "")
    cnt["instr_events"] = sum(1 for e in events if e[0] == "I")
    L = [e for e in events if e[0] == "L"]
    R = [e for e in events if e[0] == "R"]
    I = [e for e in events if e[0] == "I"]
    oplen_at = {}
    for e in I:
        oplen_at.setdefault(e[1], e[3])
    for e in events:
        if e[0] == "L?":
            bad("hook", "unparsable_L_record", e[1][:300])
    probe_lines = [l for l in (probe_text or "").split("\n") if l]
    cnt["ffi_L"], cnt["ffi_R"], cnt["probe_records"] = len(L), len(R), len(probe_lines)

    expected_out = []
    li = 0          # index into L / R / probe records (calls that reached the library)
    stopped = None
    for step in plan:
        if step[0] == "call":
            _, ip, target, func, stack = step
            kc = kinds_class(stack)
            path, variant, _fault = resolve(target, lib)
            reaches = bool(variant) and has_symbol(func, variant)
            if ip in oplen_at:
                cnt["oplen_checks"] += 1
                if oplen_at[ip] != len(stack):
                    bad(kc, "operand_stack_length_before_call",
                        "hook saw %d operands at the call_lib, %d were pushed" % (oplen_at[ip], len(stack)))
            elif not truncated:
                bad(kc, "call_not_executed", "no I event for the call_lib at instruction %d" % ip)
            if not reaches:
                continue
            # --- hook snapshot
            if li >= len(L):
                bad(kc, "hook_saw_no_call", "call %d (%s) has no L record" % (li, func))
            else:
                _, llib, lfunc, n, largs = L[li]
                if llib != path or lfunc != func:
                    bad(kc, "wrong_destination", "L record names %r %r, program calls %r %r" % (llib, lfunc, path, func))
                try:
                    hv = [parse_prim(a) for a in largs]
                except (ValueError, IndexError, KeyError) as ex:
                    hv = None
                    bad(kc, "hook_saw_different_args", "unparsable L arguments: %s" % ex)
                if hv is not None:
                    cnt["args_compared"] += len(stack)
                    if n != len(largs) or not same_vec(hv, stack):
                        bad(kc, "hook_saw_different_args", "assembled %s, interpreter passed %s (n=%d)" % (
                            show(stack), show(hv), n))
            # --- the probe's own record
            if li >= len(probe_lines):
                bad(kc, "probe_not_called", "call %d (%s): the probe logged nothing" % (li, func))
            else:
                pl = probe_lines[li]
                pname, _, ptext = pl.partition(" ")
                if pname != TAGS[variant] + func:
                    if pname.split(":")[-1] == func:
                        bad(case["class"], "wrong_library_answered",
                            "call %d names %s (build %s) but the log line is %r: another library served it" % (
                                li, target, variant, pname))
                    else:
                        bad(kc, "wrong_function_called", "probe function %r ran, program calls %r" % (pname, func))
                try:
                    pv = parse_slice(ptext)
                except (ValueError, IndexError, KeyError) as ex:
                    pv = None
                    bad(kc, "probe_saw_different_args", "unparsable probe record %r: %s" % (pl[:200], ex))
                if pv is not None:
                    cnt["args_compared"] += len(stack)
                    if not same_vec(pv, stack):
                        bad(kc, "probe_saw_different_args", "assembled %s, probe received %s" % (show(stack), show(pv)))
                    if li < len(L) and "[" + ", ".join(L[li][4]) + "]" != ptext:
                        bad(kc, "hook_and_probe_disagree", "L args %r, probe %r" % (L[li][4], ptext[:300]))
            # --- result as seen by the hook
            exp = probe_model(func, stack, variant)
            rc = "ret/" + func
            if li >= len(R):
                bad(rc, "no_result_record", "call %d (%s) has no R record" % (li, func))
            else:
                try:
                    got = parse_result(R[li][1])
                except (ValueError, IndexError, KeyError, TypeError) as ex:
                    got = None
                    bad(rc, "result_differs", "unparsable R record %r: %s" % (R[li][1], ex))
                if got is not None:
                    cnt["results_compared"] += 1
                    ok = got[0] == exp[0] and (got[0] == "none" or (got[0] == "raise" and got[1] == exp[1]) or
                                               (got[0] == "value" and same(got[1], exp[1])))
                    if not ok:
                        bad(rc, "result_differs", "probe must answer %r, interpreter received %r" % (exp, got))
            li += 1
        elif step[0] == "print":
            _, ip, stack = step
            expected_out.append(printed(stack))
            if ip in oplen_at:
                cnt["oplen_checks"] += 1
                if oplen_at[ip] != len(stack):
                    bad("ret/" + case["last_func"], "stack_after_call_has_wrong_length",
                        "%d operand(s) at instruction %d, expected %d %s" % (oplen_at[ip], ip, len(stack), show(stack)))
        elif step[0] == "stop":
            stopped = step[1]

    out_expected = "".join(expected_out)
    lastc = [s for s in plan if s[0] == "call"][-1]
    if stopped is None:
        rc = "ret/" + lastc[3]
        if res.cls != "ok":
            bad(rc, "unexpected_failure", "exit class %s: %s" % (res.cls, (res.err or res.out)[-300:]))
        cnt["prints_compared"] += len(expected_out)
        if res.out != out_expected:
            bad(rc, "pushed_value_differs", "stdout %r, expected %r" % (res.out[-400:], out_expected[-400:]))
        if not any(e[0] == "X" and e[1] == "ret" for e in events) and not truncated:
            bad(rc, "no_normal_return", "trace has no `X ret`")
    else:
        cnt["stops_checked"] += 1
        if stopped[0] == "raise":
            cls, needle = "ret/raise", stopped[1]
        else:
            cls, needle = "fault/" + {"missing": "missing_library", "notalib": "not_a_library", "dir": "directory",
                                      "missing_symbol": "missing_symbol"}[stopped[1]], FAULT_TEXT[stopped[1]]
        call_ip = lastc[1]
        if res.cls == "ok":
            bad(cls, "error_swallowed", "the program exited normally")
        elif res.cls != "fail":
            bad(cls, "wrong_exit_class", "exit class %s (rc %s): %s" % (res.cls, res.rc, res.err[-300:]))
        if core.BANNER not in res.err:
            bad(cls, "no_runtime_error_report", "stderr lacks the interpreter banner: %r" % res.err[-300:])
        if needle not in res.err:
            bad(cls, "message_missing", "stderr lacks %r: %r" % (needle, res.err[-400:]))
        if stopped[0] == "fault" and stopped[1] == "missing_symbol" and lastc[3] not in res.err:
            bad(cls, "message_missing", "stderr lacks the symbol name %r" % lastc[3])
        if SENTINEL in res.out:
            bad(cls, "later_instruction_ran", "the sentinel was printed after the failing call")
        later = [e for e in I if e[1] > call_ip]
        if later:
            bad(cls, "later_instruction_ran", "I events after the failing call_lib at %d: %s" % (call_ip, later[:3]))
        if res.out != out_expected:
            bad(cls, "output_differs_before_failure", "stdout %r, expected %r" % (res.out[-400:], out_expected[-400:]))
        if stopped[0] == "fault" and (len(L) > li or len(probe_lines) > li):
            bad(cls, "foreign_code_ran", "a call was recorded although the %s" % cls)
    if len(L) > li and stopped is None:
        bad("hook", "extra_foreign_call", "%d L records, %d calls in the program" % (len(L), li))
    if len(probe_lines) > li and stopped is None:
        bad("hook", "extra_foreign_call", "%d probe records, %d calls in the program" % (len(probe_lines), li))
    return problems, cnt


# ----------------------------------------------------------------------------- calls at depth (recursion + scopes)

START, MODULE_END = "@@C19-START@@", "@@C19-MODULE-END@@"


def build_deep(case, lib):
    """`__module__` prints START and calls `dive(depth-1)`; `dive(n)` recurses inside an `<if>` scope until n == 0 and
    there, inside `extra` further nested `<if>` scopes (the outermost optionally a `<while>` scope), pushes the
    vector and executes the `call_lib`; then `printn *`, sentinel, `ret`.  Returns (bytes, info)."""
    dp = case["deep"]
    path, variant, fault = resolve(dp["lib"], lib)
    func = dp["func"]
    bottom = []
    for j, val in enumerate(dp["push"]):
        bottom.append(make_instr(val, 0))
    bottom.append((OP["call_lib"], [path if bare_ok(path) else quote_arg(path), func]))
    bottom += [(OP["printn"], ["*"]), (OP["make_str"], [quote_arg(SENTINEL)]), (OP["printn"], ["*"]), (OP["void"], []),
               (OP["ret"], [])]
    opens = []
    for k in range(dp["extra"]):
        opens.append((OP["make_bool"], ["true"]))
        opens.append((OP["while_loop"] if (k == 0 and dp.get("while")) else OP["if_stmt"], ["@END"]))
    closes = [(OP["done"], [])] * dp["extra"]
    head = [(OP["arg"], ["0"]), (OP["store"], ["n"]), (OP["load"], ["n"]), (OP["make_int"], ["0"]), (OP["equ"], []),
            (OP["if_stmt"], ["@REC"])]
    rec = [(OP["make_bool"], ["true"]), (OP["if_stmt"], ["@END"]), (OP["load"], ["n"]), (OP["make_int"], ["1"]),
           (OP["bin_op"], ["-"]), (OP["call_self"], []), (OP["void"], []), (OP["done"], [])]
    tail = [(OP["void"], []), (OP["ret"], [])]
    dive = head + opens + bottom + closes + [(OP["done"], [])]
    rec_at = len(dive)
    dive = dive + rec + tail
    end_at = len(dive) - 2
    fixed = []
    for ip, (opc, args) in enumerate(dive):
        if args and args[0] == "@REC":
            args = [str(rec_at - ip)]
        elif args and args[0] == "@END":
            args = [str(end_at - ip)]
        fixed.append((opc, args))
    module = [(OP["make_str"], [quote_arg(START)]), (OP["printn"], ["*"]), (OP["void"], []),
              (OP["make_int"], [str(dp["depth"] - 1)]), (OP["call"], ["x.mmm#dive"]), (OP["void"], []),
              (OP["make_str"], [quote_arg(MODULE_END)]), (OP["printn"], ["*"]), (OP["void"], []), (OP["ret"], [])]
    prog = assemble(fixed, "dive") + assemble(module, "__module__")
    if variant and has_symbol(func, variant):
        exp = probe_model(func, dp["push"], variant)
    else:
        exp = ("fault", fault or "missing_symbol")
    return prog, {"path": path, "variant": variant, "expect": exp, "func": func, "stack": list(dp["push"])}


def decide_deep(case, info, res, trace_text, probe_text):
    problems = []
    dp = case["deep"]
    cnt = {"args_compared": 0, "ffi_L": 0, "ffi_R": 0, "probe_records": 0, "instr_events": 0, "oplen_checks": 0,
           "results_compared": 0, "prints_compared": 0, "stops_checked": 0, "deep_failing_calls": 0,
           "deep_max_report_lines": 0}

    def bad(cls, dev, detail):
        problems.append((cls, dev, detail))
    events, truncated = read_trace(trace_text or "")
    L = [e for e in events if e[0] == "L"]
    R = [e for e in events if e[0] == "R"]
    probe_lines = [l for l in (probe_text or "").split("\n") if l]
    cnt["instr_events"] = sum(1 for e in events if e[0] == "I")
    cnt["ffi_L"], cnt["ffi_R"], cnt["probe_records"] = len(L), len(R), len(probe_lines)
    exp, stack, func = info["expect"], info["stack"], info["func"]
    cls = case["class"]
    calls = [k for k, e in enumerate(events) if e[0] == "I" and e[2] == OP["call_lib"]]
    if len(calls) != 1:
        bad(cls, "call_not_executed", "%d call_lib instruction events, expected exactly 1" % len(calls))
    else:
        cnt["oplen_checks"] += 1
        if events[calls[0]][3] != len(stack):
            bad(cls, "operand_stack_length_before_call", "%d operands at the call_lib, %d pushed" % (events[calls[0]][3], len(stack)))
    reaches = exp[0] != "fault"
    if reaches:
        if len(L) != 1 or len(probe_lines) != 1:
            bad(cls, "probe_not_called", "%d L records, %d probe records, expected 1 each" % (len(L), len(probe_lines)))
        else:
            try:
                hv = [parse_prim(a) for a in L[0][4]]
                pname, _, ptext = probe_lines[0].partition(" ")
                pv = parse_slice(ptext)
                cnt["args_compared"] += 2 * len(stack)
                if not same_vec(hv, stack):
                    bad(cls, "hook_saw_different_args", "assembled %s, interpreter passed %s" % (show(stack), show(hv)))
                if not same_vec(pv, stack):
                    bad(cls, "probe_saw_different_args", "assembled %s, probe received %s" % (show(stack), show(pv)))
                if pname != TAGS[info["variant"]] + func:
                    bad(cls, "wrong_library_answered", "log line %r for %s of build %s" % (pname, func, info["variant"]))
            except (ValueError, IndexError, KeyError) as ex:
                bad(cls, "probe_saw_different_args", "unparsable record: %s" % ex)
        if len(R) == 1:
            try:
                got = parse_result(R[0][1])
                cnt["results_compared"] += 1
                ok = got[0] == exp[0] and (got[0] == "none" or (got[0] == "raise" and got[1] == exp[1]) or
                                           (got[0] == "value" and same(got[1], exp[1])))
                if not ok:
                    bad(cls, "result_differs", "probe must answer %r, interpreter received %r" % (exp, got))
            except (ValueError, IndexError, KeyError, TypeError) as ex:
                bad(cls, "result_differs", "unparsable R record: %s" % ex)
        else:
            bad(cls, "no_result_record", "%d R records" % len(R))
    elif L or probe_lines:
        bad(cls, "foreign_code_ran", "a call was recorded although the library/symbol is missing")
    start = printed([("str", START)])
    if exp[0] in ("value", "none"):
        after = [exp[1]] if exp[0] == "value" else []
        want = start + printed(after) + printed(after + [("str", SENTINEL)]) + printed([("str", MODULE_END)])
        cnt["prints_compared"] += 4
        if res.cls != "ok":
            bad(cls, "unexpected_failure", "exit class %s: %s" % (res.cls, res.err[-300:]))
        if res.out != want:
            bad(cls, "pushed_value_differs", "stdout %r, expected %r" % (res.out[-300:], want[-300:]))
    else:
        cnt["stops_checked"] += 1
        cnt["deep_failing_calls"] += 1
        needle = exp[1] if exp[0] == "raise" else FAULT_TEXT[exp[1]]
        if res.cls == "ok":
            bad(cls, "error_swallowed", "the program exited normally")
        elif res.cls != "fail":
            bad(cls, "wrong_exit_class", "exit class %s (rc %s): %s" % (res.cls, res.rc, res.err[-300:]))
        if core.BANNER not in res.err:
            bad(cls, "no_runtime_error_report", "stderr lacks the interpreter banner: %r" % res.err[-300:])
        if needle not in res.err:
            bad(cls, "message_missing", "stderr (%d lines) lacks %r; it ends: %r" % (
                res.err.count("\n"), needle, res.err[-300:]))
        if exp[0] == "fault" and exp[1] == "missing_symbol" and func not in res.err:
            bad(cls, "message_missing", "stderr lacks the symbol name %r" % func)
        if exp[0] == "fault" and exp[1] != "missing_symbol" and os.path.basename(info["path"]) not in res.err:
            bad(cls, "message_missing", "stderr lacks the library name %r" % os.path.basename(info["path"]))
        if SENTINEL in res.out or MODULE_END in res.out:
            bad(cls, "later_instruction_ran", "a sentinel was printed after the failing call")
        if calls and any(e[0] == "I" for e in events[calls[-1] + 1:]):
            bad(cls, "later_instruction_ran", "I events follow the failing call_lib")
        if res.out != start:
            bad(cls, "output_differs_before_failure", "stdout %r, expected %r" % (res.out[-300:], start))
        cnt["deep_max_report_lines"] = res.err.count("\n")
    acts = sum(1 for l in (trace_text or "").split("\n") if l[:2] == "E ")
    if acts != dp["depth"] + 1 and not truncated:
        bad(cls, "wrong_call_depth", "%d activations, expected %d" % (acts, dp["depth"] + 1))
    return problems, cnt


# ----------------------------------------------------------------------------- call_lib in tail position
def build_tail(case, lib):
    """`call_lib` IMMEDIATELY followed by `ret`, inside a wrapper reached through `chain` functions that each do
    nothing but `call next; ret`; the module itself ends with `call w0; ret`.  Nothing between the foreign call and
    the root looks at the result: a raised error must still stop the program with a report."""
    tp = case["tail"]
    path, variant, fault = resolve(tp["lib"], lib)
    func = tp["func"]
    n = tp["chain"]
    prog = b""
    for i in range(n):
        if i == n - 1:
            body = [make_instr(val, 0) for val in tp["push"]]
            body += [(OP["call_lib"], [path if bare_ok(path) else quote_arg(path), func]), (OP["ret"], [])]
        else:
            body = [(OP["call"], ["x.mmm#w%d" % (i + 1)]), (OP["ret"], [])]
        prog += assemble(body, "w%d" % i)
    module = [(OP["make_str"], [quote_arg(START)]), (OP["printn"], ["*"]), (OP["void"], []),
              (OP["call"], ["x.mmm#w0"]), (OP["ret"], [])]
    prog += assemble(module, "__module__")
    if variant and has_symbol(func, variant):
        exp = probe_model(func, tp["push"], variant)
    else:
        exp = ("fault", fault or "missing_symbol")
    return prog, {"path": path, "variant": variant, "expect": exp, "func": func, "stack": list(tp["push"])}


def decide_tail(case, info, res, trace_text, probe_text):
    problems = []
    cnt = {"args_compared": 0, "ffi_L": 0, "ffi_R": 0, "probe_records": 0, "instr_events": 0, "oplen_checks": 0,
           "results_compared": 0, "prints_compared": 0, "stops_checked": 0, "deep_failing_calls": 0,
           "deep_max_report_lines": 0}
    cls = case["class"]
    events, _trunc = read_trace(trace_text or "")
    cnt["instr_events"] = sum(1 for e in events if e[0] == "I")
    cnt["ffi_L"] = sum(1 for e in events if e[0] == "L")
    cnt["ffi_R"] = sum(1 for e in events if e[0] == "R")
    exp = info["expect"]
    out_lines = res.out.split("\n")
    if not out_lines or START not in out_lines[0]:
        problems.append((cls, "start_marker_missing", "stdout %r" % res.out[:200]))
    cnt["stops_checked"] = 1
    if exp[0] in ("raise", "fault"):
        if res.cls == "ok":
            problems.append((cls, "failure_not_reported", "a %s in tail position: the program ended with exit status 0 and no "
                             "report (stdout %r)" % ("raised error" if exp[0] == "raise" else exp[1], res.out[:200])))
        elif core.BANNER not in res.err:
            problems.append((cls, "no_error_report", "exit %s without the interpreter's report: %r" % (res.rc, res.err[-300:])))
        elif exp[0] == "raise" and exp[1] not in res.err:
            problems.append((cls, "message_lost", "the report does not carry the foreign message %r: %r" % (exp[1], res.err[-400:])))
    else:
        if res.cls != "ok":
            problems.append((cls, "unexpected_failure", "return form %s in tail position failed: %r" % (exp[0], res.err[-300:])))
    return problems, cnt


def tail_catalogue():
    cases = []
    vec = [("str", "tail"), ("int", 7)]
    for chain in (1, 2, 4):
        for func, lib in (("raise", "probe"), ("raise", "b/plugin"), ("echo_first", "probe"), ("no_value", "probe"),
                          ("const_str", "c/plugin"), ("echo_first", "missing"), ("no_such_symbol", "probe"),
                          ("only_in_a", "b/plugin"), ("echo_first", "notalib")):
            live = {"probe": "A", "b/plugin": "B", "c/plugin": "C"}.get(lib)
            form = ((func if has_symbol(func, live) else "missing_symbol") if live else
                    {"missing": "missing_library", "notalib": "not_a_library"}[lib.split("/")[0]])
            cases.append({"id": "tail:c%d:%s@%s" % (chain, func, lib), "class": "tail_position/%s" % form, "last_func": func,
                          "tail": {"chain": chain, "push": vec if chain % 2 else vec[:1], "func": func, "lib": lib}})
    return cases


# ----------------------------------------------------------------------------- call_lib inside a list callback
# (round 7): the foreign call happens in a function that the built-in `map` / `filter` runs once per element.  An
# error raised by the foreign function (or a missing library / symbol) must stop the program at the FIRST element:
# the foreign function is entered once, the report carries the message, and neither the callback, nor the rest of the
# list, nor the module goes on.  For a returned value the callback's results are what the built-in collects.
CB_AFTER, CB_CONT = "@@C19-CB-AFTER@@", "@@C19-CB-CONTINUED@@"


def build_callback(case, lib):
    cp = case["callback"]
    path, variant, fault = resolve(cp["lib"], lib)
    func, hop = cp["func"], cp["hop"]
    call = [(OP["call_lib"], [path if bare_ok(path) else quote_arg(path), func])]
    prog = b""
    if hop:       # the callback calls a helper that does the foreign call
        prog += assemble([make_instr(v, 0) for v in cp["push"]] + call + [(OP["ret"], [])], "helper")
        inner = [(OP["call"], ["x.mmm#helper"])]
    else:
        inner = [make_instr(v, 0) for v in cp["push"]] + call
    cb = [(OP["arg"], ["0"]), (OP["store"], ["x"])] + inner + [(OP["store"], ["r"]),
          (OP["make_str"], [quote_arg(CB_CONT)]), (OP["printn"], ["*"]), (OP["void"], []), (OP["load"], ["r"]), (OP["ret"], [])]
    prog += assemble(cb, "cb")
    module = [(OP["make_str"], [quote_arg(START)]), (OP["printn"], ["*"]), (OP["void"], []),
              (OP["make_vector"], ["3"]), (OP["store_fast"], ["#0"])]
    for k in (1, 2, 3):
        module += [(OP["make_int"], [str(k)]), (OP["vec_op"], ["+#0"])]
    module += [(OP["delete_name_reference_scoped"], ["#0"]), (OP["store"], ["xs"]),
               (OP["make_function"], ["x.mmm#cb"]), (OP["store"], ["cbv"]),
               (OP["load"], ["xs"]), (OP["store_fast"], ["#1"]), (OP["load_fast"], ["#1"]), (OP["lookup"], [cp["builtin"]]),
               (OP["store_fast"], ["#2"]), (OP["load"], ["cbv"]), (OP["store_fast"], ["#3"]), (OP["load_fast"], ["#3"]),
               (OP["ld_self"], ["#1"]), (OP["load_fast"], ["#2"]), (OP["call"], []), (OP["store"], ["ys"]),
               (OP["load"], ["ys"]), (OP["printn"], ["*"]), (OP["void"], []),
               (OP["make_str"], [quote_arg(CB_AFTER)]), (OP["printn"], ["*"]), (OP["void"], []), (OP["ret"], [])]
    prog += assemble(module, "__module__")
    if variant and has_symbol(func, variant):
        exp = probe_model(func, cp["push"], variant)
    else:
        exp = ("fault", fault or "missing_symbol")
    return prog, {"path": path, "variant": variant, "expect": exp, "func": func, "stack": list(cp["push"])}


def decide_callback(case, info, res, trace_text, probe_text):
    problems = []
    cnt = {"args_compared": 0, "ffi_L": 0, "ffi_R": 0, "probe_records": 0, "instr_events": 0, "oplen_checks": 0,
           "results_compared": 0, "prints_compared": 0, "stops_checked": 0, "deep_failing_calls": 0,
           "deep_max_report_lines": 0}
    cls = case["class"]
    events, _trunc = read_trace(trace_text or "")
    cnt["instr_events"] = sum(1 for e in events if e[0] == "I")
    cnt["ffi_L"] = n_l = sum(1 for e in events if e[0] == "L")
    cnt["ffi_R"] = sum(1 for e in events if e[0] == "R")
    exp = info["expect"]
    cnt["stops_checked"] = 1
    if START not in res.out.split("\n")[0:1][0] if res.out else True:
        problems.append((cls, "start_marker_missing", "stdout %r" % res.out[:200]))
    if exp[0] in ("raise", "fault"):
        if res.cls == "ok":
            problems.append((cls, "failure_not_reported", "a %s inside a `%s` callback: exit status 0 (stdout %r)" % (
                "raised error" if exp[0] == "raise" else exp[1], case["callback"]["builtin"], res.out[-300:])))
        elif core.BANNER not in res.err:
            problems.append((cls, "no_error_report", "exit %s without the interpreter's report: %r" % (res.rc, res.err[-300:])))
        elif exp[0] == "raise" and exp[1] not in res.err:
            problems.append((cls, "message_lost", "the report does not carry the foreign message %r: %r" % (exp[1], res.err[-400:])))
        if CB_CONT in res.out or CB_AFTER in res.out:
            problems.append((cls, "continued_after_error", "instructions after the failed foreign call ran (stdout %r)" % res.out[-300:]))
        if exp[0] == "raise" and n_l != 1:
            problems.append((cls, "foreign_function_entered_%d_times" % n_l, "a raising foreign function inside a callback over 3 elements must be entered once"))
    else:
        if res.cls != "ok":
            problems.append((cls, "unexpected_failure", "return form %s inside a callback failed: %r" % (exp[0], res.err[-300:])))
        else:
            if n_l != 3:
                problems.append((cls, "foreign_function_entered_%d_times" % n_l, "the callback runs once per element (3)"))
            if res.out.count(CB_CONT) != 3 or CB_AFTER not in res.out:
                problems.append((cls, "callback_or_module_did_not_continue", "stdout %r" % res.out[-300:]))
            cnt["results_compared"] = 1
    return problems, cnt


def callback_catalogue():
    cases = []
    for builtin in ("map", "filter"):
        for hop in (False, True):
            forms = [("raise", "probe"), ("raise", "b/plugin"), ("echo_first", "missing"), ("no_such_symbol", "probe"),
                     ("echo_first", "notalib")]
            forms += [("const_int", "probe"), ("echo_first", "probe")] if builtin == "map" else [("const_bool", "probe")]
            for func, lib in forms:
                live = {"probe": "A", "b/plugin": "B", "c/plugin": "C"}.get(lib)
                if live and func not in ("no_such_symbol",) and not has_symbol(func, live):
                    continue
                form = ((func if has_symbol(func, live) else "missing_symbol") if live else
                        {"missing": "missing_library", "notalib": "not_a_library"}[lib.split("/")[0]])
                cases.append({"id": "callback:%s:%s:%s@%s" % (builtin, "via_helper" if hop else "direct", func, lib),
                              "class": "callback/%s" % form, "last_func": func,
                              "callback": {"builtin": builtin, "hop": hop, "push": [("int", 7)], "func": func, "lib": lib}})
    return cases


def deep_catalogue():
    cases = []
    vec = [("str", "raised at the bottom"), ("int", 0), ("float", 2.5)]
    shapes = [(1, 0, False), (1, 45, True), (10, 0, False), (10, 30, False), (45, 0, False), (45, 3, True),
              (80, 0, False), (80, 6, False)]
    forms = [("raise", "probe"), ("raise", "b/plugin"), ("echo_first", "missing"), ("echo_first", "nodir/plugin"),
             ("no_such_symbol", "probe"), ("only_in_a", "b/plugin"), ("echo_first", "notalib"),
             ("echo_last", "probe"), ("no_value", "c/plugin"), ("const_str", "b/plugin")]
    for depth, extra, wh in shapes:
        for func, lib in forms:
            live = {"probe": "A", "b/plugin": "B", "c/plugin": "C"}.get(lib)
            form = ((func if has_symbol(func, live) else "missing_symbol") if live else
                    {"missing": "missing_library", "nodir": "missing_library", "notalib": "not_a_library"}[lib.split("/")[0]])
            cases.append({"id": "deep:d%d+%d%s:%s@%s" % (depth, extra, "w" if wh else "", func, lib),
                          "class": "depth/%s" % form, "last_func": func,
                          "deep": {"depth": depth, "extra": extra, "while": wh, "push": vec if depth % 2 else vec[:1],
                                   "func": func, "lib": lib}})
    return cases


def multi_catalogue():
    """Several builds of the probe under the SAME file name in different directories, under different file names
    in one directory; alternating multi-call programs; 'present, then missing under the same name' sequences."""
    cases = []
    pick = Picker()

    def v(n):
        return [pick.take(KINDS[(len(cases) + j) % 6]) for j in range(n)]
    same_name = ["a/plugin", "b/plugin", "c/plugin", "deep/a/plugin"]
    same_dir = ["same/one", "same/two", "same/three"]
    fns = ["echo_first", "echo_last", "const_int", "const_str", "no_value"]
    for group, gname in ((same_name, "same_name"), (same_dir, "same_dir"), (["probe", "a/plugin", "same/two"], "mixed")):
        for f in fns:
            for order in ([0, 1], [1, 0], [0, 1, 2], [2, 0, 1], [0, 1, 0, 1], [1, 1, 0, 0]):
                libs = [group[k % len(group)] for k in order]
                cases.append(mk("multi:%s:%s:%s" % (gname, f, "".join(map(str, order))), "multi/%s/same_fn" % gname,
                                [seg(v(2 if k == 0 else 1), f, lib=l) for k, l in enumerate(libs)]))
        # different function names, then the same names the other way round (README pattern)
        for f1, f2 in (("const_int", "const_str"), ("no_value", "const_int"), ("const_str", "echo_first")):
            a, b = group[0], group[1]
            cases.append(mk("multi:%s:%s/%s:abba" % (gname, f1, f2), "multi/%s/alternating_fns" % gname,
                            [seg(v(1), f1, lib=a), seg(v(1), f2, lib=b), seg(v(1), f1, lib=b), seg(v(1), f2, lib=a)]))
        # raise from the second library after a call of the same name went to the first
        cases.append(mk("multi:%s:raise_after" % gname, "multi/%s/raise" % gname,
                        [seg(v(1), "const_int", lib=group[0]), seg(v(1), "const_int", lib=group[1]),
                         seg(v(1), "raise", lib=group[1])]))
        cases.append(mk("multi:%s:raise_other" % gname, "multi/%s/raise" % gname,
                        [seg(v(1), "no_value", lib=group[1]), seg(v(1), "raise", lib=group[0])]))
    # present, then missing under the same file name elsewhere
    for ok_lib in ("a/plugin", "b/plugin"):
        for gone in ("nodir/plugin", "empty/plugin"):
            for f in ("echo_first", "const_int", "no_value"):
                cases.append(mk("multi:gone:%s>%s:%s" % (ok_lib, gone, f), "multi/present_then_missing_library",
                                [seg(v(2), f, lib=ok_lib), seg(v(1), f, lib=gone)]))
                cases.append(mk("multi:gone:%s>%s>%s:%s" % (ok_lib, ok_lib, gone, f), "multi/present_then_missing_library",
                                [seg(v(1), f, lib=ok_lib), seg(v(1), f, lib=ok_lib), seg(v(1), f, lib=gone)]))
    # a library named by its bare file name, found through the loader's search path; alone, after and before a
    # library named by path; and a bare name that is nowhere on the path
    for f in ("echo_first", "const_str", "no_value", "only_in_b"):
        cases.append(mk("multi:search_path:bare:%s" % f, "multi/search_path", [seg(v(2), f, lib="search/bare")]))
        cases.append(mk("multi:search_path:path>bare:%s" % f, "multi/search_path",
                        [seg(v(1), "const_int", lib="a/plugin"), seg(v(1), f, lib="search/bare"), seg(v(1), "const_int", lib="b/plugin")]))
    # a library in the working directory named with a leading `./` (the loader does NOT look there for a bare name)
    for f in ("echo_first", "const_str", "raise", "no_value"):
        cases.append(mk("multi:cwd:dot:%s" % f, "multi/cwd_dot", [seg(v(2), f, lib="cwd/dot")]))
        cases.append(mk("multi:cwd:path>dot:%s" % f, "multi/cwd_dot",
                        [seg(v(1), "const_int", lib="a/plugin"), seg(v(1), f, lib="cwd/dot")]))
    cases.append(mk("multi:cwd:dot_missing", "multi/cwd_dot",
                    [seg(v(1), "const_int", lib="cwd/dot"), seg(v(1), "const_int", lib="cwd/dot_missing")]))
    cases.append(mk("multi:search_path:bare_raise", "multi/search_path",
                    [seg(v(1), "const_int", lib="search/bare"), seg(v(1), "raise", lib="search/bare")]))
    cases.append(mk("multi:search_path:bare_symbol_gone", "multi/search_path",
                    [seg(v(1), "only_in_a", lib="a/plugin"), seg(v(1), "only_in_a", lib="search/bare")]))
    cases.append(mk("multi:search_path:bare_missing", "multi/search_path",
                    [seg(v(1), "const_int", lib="search/bare"), seg(v(1), "const_int", lib="search/bare_missing")]))
    cases.append(mk("multi:gone:same/one>same/missing", "multi/present_then_missing_library",
                    [seg(v(1), "const_int", lib="same/one"), seg(v(1), "const_int", lib="same/missing")]))
    # existing symbol, then the same symbol name missing in another library
    for first, then, f in (("a/plugin", "b/plugin", "only_in_a"), ("b/plugin", "a/plugin", "only_in_b"),
                           ("same/one", "same/two", "only_in_a"), ("probe", "c/plugin", "only_in_a"),
                           ("same/two", "same/three", "only_in_b")):
        cases.append(mk("multi:symbol_gone:%s>%s:%s" % (first, then, f), "multi/present_then_missing_symbol",
                        [seg(v(1), f, lib=first), seg(v(1), f, lib=then)]))
        cases.append(mk("multi:symbol_gone:%s>%s>%s:%s" % (first, first, then, f), "multi/present_then_missing_symbol",
                        [seg(v(1), f, lib=first), seg(v(0), f, lib=first), seg(v(2), f, lib=then)]))
    return cases


def random_multi(ctx, n):
    rng = ctx.rng("multi")
    live = ["probe", "a/plugin", "b/plugin", "c/plugin", "deep/a/plugin", "same/one", "same/two", "same/three", "search/bare", "cwd/dot"]
    gone = ["nodir/plugin", "empty/plugin", "same/missing", "missing", "search/bare_missing", "cwd/dot_missing"]
    cases = []
    for i in range(n):
        fpool = rng.sample(FUNCS, 2)
        segs = []
        for k in range(rng.randint(2, 5)):
            f = rng.choice(fpool)
            segs.append(seg([random_value(rng, rng.choice(KINDS)) for _ in range(rng.randint(0, 3))], f, lib=rng.choice(live)))
            if f == "raise":
                break
        if segs[-1]["func"] != "raise" and rng.random() < 0.25:
            segs.append(seg([], rng.choice(fpool), lib=rng.choice(gone)))
        cases.append(mk("rndmulti:%d" % i, "multi/random", segs))
    return cases


def run_case(item):
    """Worker: item = (case, lib, valgrind?)."""
    case, lib, vg = item
    if "deep" in case:
        prog, plan = build_deep(case, lib)
    elif "tail" in case:
        prog, plan = build_tail(case, lib)
    elif "callback" in case:
        prog, plan = build_callback(case, lib)
    else:
        prog, plan = build_program(case, lib)
    d = core.case_dir("c19")
    try:
        with open(os.path.join(d, "x.mmm"), "wb") as f:
            f.write(prog)
        with open(os.path.join(d, "not_a_library.so"), "w") as f:
            f.write("this is not an ELF object\n")
        os.symlink(ffi.cwd_source(), os.path.join(d, "libcwd.so"))
        trace_p, probe_p = os.path.join(d, "_trace.log"), os.path.join(d, "_probe.log")
        env = {"MSCRIPT_VERIF_TRACE": trace_p, "MSCRIPT_FFI_PROBE_LOG": probe_p, "MSCRIPT_VERIF_TYPED_PRINT": "1",
               "LD_LIBRARY_PATH": ffi.search_dir()}
        argv = core.ms("execute", "x.mmm")
        if "deep" in case:
            argv += ["--stack-size", str(256 << 20)]       # 80 debug-build activations do not fit the default 4 MiB
        vg_log = os.path.join(d, "vg.log")
        if vg:
            argv = ["valgrind", "--error-exitcode=99", "--quiet", "--log-file=" + vg_log] + argv
        res = core.run(argv, d, env, cpu=120 if vg else 10)
        if res.cls in ("wall_timeout", "cpu_timeout", "spawn_error"):
            return {"id": case["id"], "inconclusive": "%s on %s%s" % (res.cls, case["id"], " (valgrind)" if vg else "")}

        def rd(p):
            try:
                with open(p, encoding="utf-8", errors="replace") as f:
                    return f.read()
            except OSError:
                return None
        trace_text, probe_text, vg_text = rd(trace_p), rd(probe_p), rd(vg_log) if vg else None
        memcheck = None
        if vg and res.rc == 99:
            # memcheck reported an error; the program's own exit status is masked by --error-exitcode:
            # restore the class for the rest of the oracle
            memcheck = (vg_text or "<no report text>")[:3000]
            res.cls = "fail" if core.BANNER in res.err else "ok"
        if trace_text is None:
            return {"id": case["id"], "inconclusive": "H-TRACE log missing for %s (%s)" % (case["id"], res.cls)}
        if "deep" in case:
            problems, cnt = decide_deep(case, plan, res, trace_text, probe_text)
            nargs = [len(plan["stack"])]
        elif "tail" in case:
            problems, cnt = decide_tail(case, plan, res, trace_text, probe_text)
            nargs = [len(plan["stack"])]
        elif "callback" in case:
            problems, cnt = decide_callback(case, plan, res, trace_text, probe_text)
            nargs = [len(plan["stack"])]
        else:
            problems, cnt = decide(case, plan, res, trace_text, probe_text, lib)
            nargs = [len(s[4]) for s in plan if s[0] == "call"]
        if memcheck is not None:
            problems.append((case["class"], "memcheck_error", memcheck[:600]))
        out = {"id": case["id"], "class": case["class"], "cnt": cnt, "vg": bool(vg), "cls": res.cls,
               "nargs": nargs, "problems": problems}
        if problems or case.get("sample"):
            out["witness"] = {"case": case, "valgrind": bool(vg), "program_hex": prog.hex(),
                              "program_readable": readable(prog), "run": res.brief(),
                              "trace_ffi": [l for l in (trace_text or "").split("\n") if l[:1] in "LRX"][:12],
                              "probe_log": (probe_text or "")[:2000], "memcheck": memcheck}
        return out
    finally:
        core.rm(d)


def readable(prog):
    out = []
    for rec in prog.split(b"\0")[:-1]:
        if rec[:2] == b"f " or rec == b"e":
            out.append(rec.decode("utf-8", "replace"))
        else:
            out.append("%s%s" % (tracecheck.opname(rec[0]),
                                 rec[1:].decode("utf-8", "replace")))
    return out


# ----------------------------------------------------------------------------- workload

def _vec_json(vec):
    return [[k, v] for k, v in vec]


class Picker:
    """Deterministic round-robin over the boundary values of each kind (every value gets used)."""

    def __init__(self):
        self.pos = {k: 0 for k in KINDS}

    def take(self, kind):
        vs = VALUES[kind]
        v = vs[self.pos[kind] % len(vs)]
        self.pos[kind] += 1
        return (kind, v)


def seg(push, func, lib="probe", forms=None):
    s = {"push": push, "func": func, "lib": lib}
    if forms:
        s["forms"] = forms
    return s


def mk(cid, cls, segments):
    return {"id": cid, "class": cls, "segments": segments, "last_func": segments[-1]["func"]}


def catalogue():
    """The seed-independent part: every kind vector of length <= 2 with every probe function, every boundary
    value alone and in second position, spelling variants, chains, and the fault cases."""
    cases = []
    pick = Picker()
    vectors = [[]] + [[a] for a in KINDS] + [[a, b] for a in KINDS for b in KINDS]
    for kv in vectors:
        for func in FUNCS:
            vec = [pick.take(k) for k in kv]
            cases.append(mk("exh:%s:%s" % (",".join(kv) or "none", func), kinds_class(vec), [seg(vec, func)]))
    for kind in KINDS:
        for i, v in enumerate(VALUES[kind]):
            cases.append(mk("val:%s:%d:first" % (kind, i), "args/" + kind, [seg([(kind, v)], "echo_first")]))
            cases.append(mk("val:%s:%d:last" % (kind, i), "args/str," + kind,
                            [seg([("str", "two words"), (kind, v)], "echo_last")]))
    # alternative spellings of the same operand (decimal byte, integral float, zero-argument make_str, bare token)
    for form in (1, 2):
        for kind in ("float", "byte", "str"):
            for i, v in enumerate(VALUES[kind]):
                cases.append(mk("form%d:%s:%d" % (form, kind, i), "args/" + kind,
                                [seg([(kind, v)], "echo_first", forms=[form])]))
    # chains: the value pushed by the first call is the first argument of the second call
    for f1 in VALUE_FUNCS + ["no_value"]:
        for f2 in ("echo_first", "echo_last", "no_value", "raise", "const_str"):
            for extra in (0, 2):
                more = [pick.take(KINDS[(len(cases) + j) % 6]) for j in range(extra)]
                cases.append(mk("chain:%s>%s:+%d" % (f1, f2, extra), "chain/%s>%s" % (f1, f2),
                                [seg([pick.take("str"), pick.take("int")], f1), seg(more, f2)]))
    # faults
    shapes = [[], [("int", 7), ("str", "x y")],
              [("int", 1), ("bigint", 1 << 70), ("float", 2.5), ("byte", 9), ("bool", False), ("str", 'q"uote')]]
    for target, name in (("missing", "missing_library"), ("notalib", "not_a_library"), ("dir", "directory")):
        for i, vec in enumerate(shapes):
            cases.append(mk("fault:%s:%d" % (name, i), "fault/" + name, [seg(vec, "echo_first", lib=target)]))
        cases.append(mk("fault:%s:after_call" % name, "fault/" + name,
                        [seg([("int", 3)], "echo_first"), seg([("str", "k")], "echo_first", lib=target)]))
    for sym in ("no_such_symbol", "Echo_first", "echo_firs", "echo_first2", "raise_"):
        for i, vec in enumerate(shapes):
            cases.append(mk("fault:missing_symbol:%s:%d" % (sym, i), "fault/missing_symbol", [seg(vec, sym)]))
    cases.append(mk("fault:missing_symbol:after_call", "fault/missing_symbol",
                    [seg([("int", 3)], "const_str"), seg([("str", "k")], "nope")]))
    return cases


def random_value(rng, kind):
    if rng.random() < 0.5:
        return (kind, rng.choice(VALUES[kind]))
    if kind == "int":
        return (kind, rng.randint(-2 ** 31, 2 ** 31 - 1))
    if kind == "bigint":
        return (kind, rng.randint(-I128_MAX - 1, I128_MAX) >> rng.choice([0, 0, 40, 64, 100]))
    if kind == "float":
        x = struct.unpack("<d", struct.pack("<Q", rng.getrandbits(64)))[0]
        return (kind, x if not math.isnan(x) else float("nan")) if rng.random() < 0.5 else (
            kind, rng.choice([-1, 1]) * rng.random() * 10 ** rng.randint(-8, 12))
    if kind == "byte":
        return (kind, rng.randint(0, 255))
    if kind == "bool":
        return (kind, rng.random() < 0.5)
    alphabet = ['a', 'b', 'Z', '0', ' ', ' ', '"', '\\', '\n', '\t', '\r', ',', '*', 'é', '中', '\U0001f600',
                "'", '#', '{', '}', ' ', ' ', '\x01', '\x7f']
    return (kind, "".join(rng.choice(alphabet) for _ in range(rng.choice([0, 1, 2, 5, 9, 20, 60]))))


def random_cases(ctx, n):
    rng = ctx.rng("vectors")
    cases = []
    for i in range(n):
        ln = rng.randint(3, 6)
        vec = [random_value(rng, rng.choice(KINDS)) for _ in range(ln)]
        forms = [rng.choice([0, 0, 1, 2]) for _ in vec]
        func = rng.choice(FUNCS)
        segs = [seg(vec, func, forms=forms)]
        cls = kinds_class(vec)
        r = rng.random()
        if func in VALUE_FUNCS + ["no_value"] and r < 0.3:
            more = [random_value(rng, rng.choice(KINDS)) for _ in range(rng.randint(0, 5))]
            segs.append(seg(more, rng.choice(FUNCS)))
        elif r > 0.93:
            segs[0]["lib"] = rng.choice(["missing", "notalib", "dir"])
        elif r > 0.86:
            segs[0]["func"] = rng.choice(["absent_fn", "echo", "const", "RAISE"])
        cases.append(mk("rnd:%d" % i, cls, segs))
    return cases


def valgrind_sample(ctx, cat, rnd):
    """One per class first (quick ~8), then more of every class (thorough ~40)."""
    by_id = {c["id"]: c for c in cat}
    first = ["exh:none:echo_first", "exh:int,str:echo_last", "exh:str,str:const_str", "exh:bigint,float:no_value",
             "exh:byte,bool:raise", "fault:missing_library:2", "fault:missing_symbol:no_such_symbol:2",
             "chain:const_str>echo_first:+2", "multi:same_name:const_str:0101", "multi:gone:a/plugin>nodir/plugin:echo_first",
             "deep:d45+0:raise@probe"]
    picked = [by_id[i] for i in first]
    if rnd:
        longest = max(rnd, key=lambda c: len(c["segments"][0]["push"]) if c["id"].startswith("rnd:") else -1)
        picked.append(longest)
    if not ctx.quick:
        rng = ctx.rng("valgrind")
        extra = ["exh:%s:%s" % (k, f) for k, f in (("str", "echo_first"), ("float,float", "const_float"),
                 ("bool,byte", "const_byte"), ("int,int", "const_int"), ("bigint,bigint", "const_bigint"),
                 ("str,int", "const_bool"), ("none", "raise"), ("none", "no_value"), ("none", "const_str"))]
        extra += ["multi:symbol_gone:a/plugin>b/plugin:only_in_a", "multi:same_dir:echo_last:201",
                  "deep:d80+6:no_such_symbol@probe", "deep:d10+30:echo_last@probe", "deep:d1+45w:echo_first@missing"]
        extra += ["fault:not_a_library:1", "fault:directory:0", "fault:missing_library:after_call",
                  "fault:missing_symbol:after_call", "chain:echo_last>raise:+2", "chain:no_value>echo_last:+2",
                  "val:str:25:first", "val:str:26:last", "val:bigint:7:first", "val:float:17:last"]
        picked += [by_id[i] for i in extra]
        picked += rng.sample(rnd, min(12, len(rnd)))
    return picked


# ----------------------------------------------------------------------------- engine

def run(ctx):
    out = core.Outcome()
    if not os.path.exists(core.BIN):
        raise core.Inconclusive("no mscript binary at %s" % core.BIN)
    libs = ffi.build_variants(quiet=True)
    lib = libs["A"]
    LAYOUT.clear()
    LAYOUT.update(ffi.install_layout(libs))
    multi, deepc = multi_catalogue(), deep_catalogue() + tail_catalogue() + callback_catalogue()
    cat = catalogue() + multi + deepc
    rnd = random_cases(ctx, ctx.n(1500, 8000)) + random_multi(ctx, ctx.n(300, 2500))
    items = [(c, lib, False) for c in cat + rnd]
    have_vg = core.run(["valgrind", "--version"], core.WORK, cpu=10).cls == "ok"
    vg_cases = valgrind_sample(ctx, cat, rnd) if have_vg else []
    # slow items first so that the pool is not left waiting for a 5 s valgrind run at the end
    items = [(c, lib, True) for c in vg_cases] + items
    for c in cat:
        if c["id"] in ("exh:int,str:echo_last", "exh:byte,bool:raise", "chain:const_str>echo_first:+2"):
            c["sample"] = True
    results = core.pmap(run_case, items, chunksize=1 if len(items) < 200 else 4)

    tot = {}
    per_class, vg_by_class, kinds_at = {}, {}, {}
    lengths = {}
    vg_runs = 0
    for (case, _, vg), (status, res) in zip(items, results):
        if status != "ok":
            out.inconclusive.append("%s: %s" % (case["id"], str(res)[-400:]))
            continue
        if "inconclusive" in res:
            out.inconclusive.append(res["inconclusive"])
            continue
        out.evaluations += 1
        for k, v in res["cnt"].items():
            tot[k] = tot.get(k, 0) + v
        per_class[case["class"].split("/")[0]] = per_class.get(case["class"].split("/")[0], 0) + 1
        if vg:
            vg_runs += 1
            vg_by_class[case["class"]] = vg_by_class.get(case["class"], 0) + 1
        for n in res["nargs"]:
            lengths[n] = lengths.get(n, 0) + 1
        for s in case.get("segments", []):
            for pos, (k, _) in enumerate(s["push"]):
                kinds_at["%d:%s" % (pos, k)] = kinds_at.get("%d:%s" % (pos, k), 0) + 1
        if any(res["nargs"]) or case["class"].startswith("fault") or "deep" in case or "tail" in case or "callback" in case:
            out.distinct.add(core.h([case.get("segments") or case.get("deep") or case.get("tail") or case["callback"], vg]))
        if "witness" in res and not res["problems"] and len(out.samples) < 3:
            w = res["witness"]
            out.samples.append({"id": case["id"], "program": w["program_readable"], "stdout": w["run"]["out"],
                                "stderr_tail": w["run"]["err"][-300:], "trace_ffi": w["trace_ffi"],
                                "probe_log": w["probe_log"], "valgrind": w["valgrind"]})
        seen = set()
        for cls, dev, detail in res["problems"]:
            sig = "C19:%s:%s" % (cls, dev)
            if sig in seen:
                continue
            seen.add(sig)
            w = dict(res["witness"])
            w["deviation"] = detail
            out.violations.append(core.Violation(sig, "%s — %s [%s%s]" % (dev, detail[:300], case["id"],
                                                                         ", under valgrind" if vg else ""), w))
    out.coverage.update(tot)
    out.coverage.update({
        "cases_by_class": per_class, "calls_by_argument_count": {str(k): v for k, v in sorted(lengths.items())},
        "kind_at_position": dict(sorted(kinds_at.items())),
        "kind_vectors_len_le_2_enumerated": 43, "probe_functions": FUNCS,
        "boundary_values_per_kind": {k: len(v) for k, v in VALUES.items()},
        "catalogue_cases": len(cat), "seeded_cases": len(rnd),
        "multi_library_cases": len(multi), "library_layout": {k: [os.path.relpath(p, core.WORK) if os.path.isabs(p) else p + " (bare name, LD_LIBRARY_PATH)", v] for k, (p, v) in LAYOUT.items()},
        "calls_at_depth_cases": len(deepc),
        "call_depths(activations+extra scopes)": sorted({"%d+%d" % (c["deep"]["depth"], c["deep"]["extra"]) for c in deepc if "deep" in c}),
        "tail_position_cases(call_lib directly followed by ret, tail calls up to the root)": len([c for c in deepc if "tail" in c]),
        "valgrind_runs": vg_runs, "valgrind_runs_by_class": vg_by_class, "valgrind_available": have_vg,
        "probe_library": lib,
    })
    out.exhaustive = False
    out.rule = ("multi-library part: three builds of the probe (plain / B / C, told apart by the tag of their log line, of "
                "const_str, const_int and of the raised message) installed under the SAME file name in different directories "
                "and under different names in one directory; 2-4 call programs over them (same function, alternating "
                "functions), present-then-missing library of the same file name, present-then-missing symbol of the same "
                "name; per call the library that was named must be the one that logged and answered.  Depth part: the "
                "failing / succeeding call_lib at the bottom of a recursion of 1, 10, 45, 80 activations with up to 45 "
                "extra <if>/<while> scopes; the message must be carried at every depth.  Flat part: "
                "binary .mmm programs assembled by the harness: push a vector with make_*, `call_lib` a probe function, "
                "`printn *`, sentinel.  Deterministic part: all 43 kind vectors of length <= 2 x all %d probe functions "
                "(return forms: value of each kind / echoed argument / no value / raised error), every boundary value of "
                "every kind alone and in second position, operand spelling variants, two-call chains (the pushed result "
                "is the first argument of the next call), faults (missing library, non-library file, directory, missing "
                "symbol; also after a successful call).  Seeded part: vectors of length 3-6 with random values, ~30%% "
                "chained, ~14%% faults.  Each execution is compared at three observers (assembled vector, H-FFI L/R "
                "records, probe log), at stdout and at the I-event operand-stack lengths.  Distinct non-trivial = "
                "distinct program with >= 1 argument or a fault." % len(FUNCS))
    out.assumptions = [
        "host and probe are compiled by the same rustc with the same RUSTFLAGS (the boundary passes Rust types; the "
        "Rust ABI is only defined per compiler and flags) — the probe is rebuilt from /verif/ffi_probe against the "
        "repository's working tree on every run",
        "the operand stack is observed through `printn *` (+ kind prefix of H-KIND), through the argument slice of a "
        "following call and through the operand count of the I events; values other than the six primitive kinds "
        "are outside the quantifier",
        "NUL cannot occur inside a bytecode argument (record terminator), so strings are NUL-free",
        "valgrind memcheck is run on a sample of every class only (cost ~5 s per run)",
        "programs that recurse (depth family) run with `--stack-size 268435456`: 80 activations of the debug build do not "
        "fit the default 4 MiB interpreter stack (a stack overflow there is not what C19 is about)",
        "the tagged probe builds differ from the plain one only in the tag of their log line / const_str / raised message "
        "and in const_int (cargo features variant_b / variant_c of /verif/ffi_probe)",
    ]
    if not have_vg:
        out.inconclusive.append("valgrind not available: the memcheck lane did not run")
    if tot.get("ffi_L", 0) == 0 or tot.get("probe_records", 0) == 0:
        out.observed_nothing = "no foreign call was observed (H-FFI records: %d, probe records: %d)" % (
            tot.get("ffi_L", 0), tot.get("probe_records", 0))
    return out


def replay(path):
    with open(os.path.join(path, "case.json")) as f:
        case = json.load(f)
    w = case["witness"]
    c = w["case"]
    for s in c.get("segments", []):
        s["push"] = [tuple(v) for v in s["push"]]
    if "deep" in c:
        c["deep"]["push"] = [tuple(v) for v in c["deep"]["push"]]
    if "tail" in c:
        c["tail"]["push"] = [tuple(v) for v in c["tail"]["push"]]
    if "callback" in c:
        c["callback"]["push"] = [tuple(v) for v in c["callback"]["push"]]
    libs = ffi.build_variants(quiet=True)
    lib = libs["A"]
    LAYOUT.clear()
    LAYOUT.update(ffi.install_layout(libs))
    res = run_case((c, lib, bool(w.get("valgrind"))))
    print(json.dumps({k: v for k, v in res.items() if k != "witness"}, indent=1, default=str, ensure_ascii=False))
    return 1 if res.get("problems") else 0
