"""C03 — ill-typed programs are rejected with a diagnostic before anything runs.

Workload: accepted programs of the type-directed generator (mv/tgen.py) x every typed site x every
applicable fault of a fixed catalogue.  Oracle: `mscript run` must fail (exit 1, not a panic), print a
diagnostic that names the file and a position, and the sentinel first statement must not have run."""
import json
import os
import re

from .. import core, tgen

POS = re.compile(r"-->\s*\S*main\.ms:\d+:\d+|main\.ms:\d+:\d+")


def faults_for(site):
    """[(fault id, replacement text)] — only edits that are ill-typed under every reading of the language."""
    k, t = site.kind, site.typ
    out = []
    if k in ("init", "reassign", "arg", "return", "mapval", "field_assign", "index_assign"):
        for i, w in enumerate(tgen.wrong_for(t)):
            out.append(("wrong_type_%s" % w.strip('"[]')[:6].replace(", ", "_") if False else "wrong_type_%d" % i, w))
        if t[0] != 'opt':
            out.append(("nil_into_non_optional", "nil"))
            if t[0] == 'int':
                out.append(("optional_into_non_optional", "zopt_i"))
            if t[0] == 'str':
                out.append(("optional_into_non_optional", "zopt_s"))
            if t[0] == 'bool':
                out.append(("optional_into_non_optional", "zopt_b"))
        out.append(("unknown_name", "zz_undefined"))
    elif k == "argcount":
        out.append(("extra_argument", ", 1" if site.extra else "1"))
    elif k == "cond":
        out += [("non_bool_condition_int", "1"), ("non_bool_condition_str", '"w"'), ("optional_bool_condition", "zopt_b")]
    elif k == "operand":
        op = site.extra
        if op in '+*':
            # str + any and str * int are legal: only a bool operand is certainly unsupported
            out.append(("unsupported_operand_bool", "true"))
        else:
            out += [("unsupported_operand_str", '"w"'), ("unsupported_operand_bool", "true")]
    elif k == "index":
        out += [("non_index_index_str", '"w"'), ("non_index_index_bool", "true"), ("optional_index", "zopt_i")]
    elif k == "indexee":
        out.append(("index_of_non_indexable", "zint"))
    elif k == "field":
        out.append(("unknown_field", "zz_nofield"))
    elif k == "method":
        out.append(("unknown_method", "zz_nomethod"))
    elif k == "callee":
        out += [("call_of_non_callable", "zint"), ("unknown_function", "zz_undefined")]
    elif k == "bound":
        out += [("non_numeric_bound", '"w"')]
    elif k == "mapkey":
        for i, w in enumerate(tgen.wrong_for(t)):
            out.append(("wrong_key_type_%d" % i, w))
    elif k == "opassign":
        out += [("unsupported_operand_bool", "true"), ("unsupported_operand_list", "[1, 2]")]
    return out


def too_few(sites, site):
    """For a call with exactly one argument: dropping it gives a call with too few arguments."""
    return site.kind == "arg"


def judge(text, want_compile_check=False):
    r, _, _ = core.run_program({"main.ms": text}, cpu=10)
    if r.cls in ("wall_timeout", "cpu_timeout", "spawn_error"):
        return "inconclusive", r
    ran = "@@RUN@@" in r.out
    if r.cls == "panic" and not ran:
        return "panic", r
    if r.cls == "signal":
        return "crash", r
    if ran or r.cls == "ok":
        return "accepted", r
    if r.cls != "fail":
        return "odd_exit", r
    if not POS.search(r.out + r.err):
        return "no_position", r
    return "rejected", r


def work(seed):
    text, sites, g = tgen.gen(seed)
    base, r0 = judge(text)
    res = {"seed": seed, "base": base, "triples": 0, "rejected": 0, "by_kind": {}, "problems": [], "inconclusive": 0,
           "compile_checked": 0}
    if not (r0.cls in ("ok",) and "@@END@@" in r0.out):
        # base must be accepted and clean
        res["base"] = "unusable(%s)" % r0.cls
        return res
    res["base"] = "clean"
    arg_counts = {}
    for s in sites:
        if s.kind == "argcount":
            arg_counts[s.line] = s.extra
    for si, s in enumerate(sites):
        fl = faults_for(s)
        if s.kind == "arg" and arg_counts.get(s.line) == 1 and sum(1 for x in sites if x.line == s.line and x.kind == "arg") == 1:
            fl = fl + [("missing_argument", "")]
        for fid, repl in fl:
            if repl == s.text:
                continue
            mutated = tgen.splice(text, s, repl)
            verdict, r = judge(mutated)
            res["triples"] += 1
            key = "%s/%s" % (s.kind, fid)
            res["by_kind"][key] = res["by_kind"].get(key, 0) + 1
            if verdict == "inconclusive":
                res["inconclusive"] += 1
            elif verdict == "rejected":
                res["rejected"] += 1
                if res["triples"] % 7 == 0:
                    # the compile subcommand must agree and leave no bytecode file for the entry module
                    d = core.case_dir("c03c")
                    core.write_files(d, {"main.ms": mutated})
                    rc = core.run(core.ms("compile", "main.ms", "--quick"), d, cpu=10)
                    made = os.path.exists(os.path.join(d, "main.mmm"))
                    core.rm(d)
                    res["compile_checked"] += 1
                    if rc.cls == "ok" or made:
                        res["problems"].append({"sig": "C03:%s:%s:compile_subcommand_%s" % (s.kind, fid, "wrote_bytecode" if made else "accepted"),
                                                "what": "`compile` accepted / wrote main.mmm for an ill-typed program",
                                                "files": {"main.ms": mutated}, "site": [s.kind, tgen.tname(s.typ) if s.typ and s.kind not in ("callee",) else None, s.ctx, s.line + 1],
                                                "fault": fid, "run": rc.brief()})
            else:
                res["problems"].append({"sig": "C03:%s:%s:%s" % (s.kind, fid, verdict),
                                        "what": "%s at a %s site (%s, context %s) -> %s" % (fid, s.kind, s.text[:30], s.ctx, verdict),
                                        "files": {"main.ms": mutated}, "site": [s.kind, str(s.typ), s.ctx, s.line + 1, s.text],
                                        "fault": fid, "replacement": repl, "run": r.brief()})
    return res


# whole-program faults that are not tied to a generated site
EXTRA = [
    ("break_outside_loop", 'print "@@RUN@@"\nx = 1\nbreak\n'),
    ("continue_outside_loop", 'print "@@RUN@@"\nx = 1\ncontinue\n'),
    # a function body is not inside the loop its literal is written in
    ("break_in_closure_inside_while", 'print "@@RUN@@"\ni = 0\nwhile i < 2 {\n  f = fn() {\n    break\n  }\n  f()\n  i = i + 1\n}\n'),
    ("continue_in_closure_inside_from", 'print "@@RUN@@"\nfrom 0 to 2, k {\n  f = fn() {\n    if k == 0 {\n      continue\n    }\n  }\n  f()\n}\n'),
    ("break_in_method_of_class_inside_loop", 'print "@@RUN@@"\ni = 0\nwhile i < 1 {\n  class Kb {\n    fn m(self) {\n      break\n    }\n  }\n  i = i + 1\n}\n'),
    ("break_in_if_in_function_without_loop", 'print "@@RUN@@"\nf = fn(a: int) {\n  if a > 0 {\n    break\n  }\n}\nf(1)\n'),
    ("break_after_loop_ended", 'print "@@RUN@@"\nwhile false {\n}\nif true {\n  break\n}\n'),
    # function types are compared by parameter TYPES, not by parameter names
    ("reassign_fn_same_parameter_names_other_types", 'print "@@RUN@@"\nsc = fn(x: int) -> int {\n  return x + 1\n}\nsc = fn(x: str) -> int {\n  return x.len()\n}\nprint sc(21)\n'),
    ("modify_fn_same_parameter_names_other_types", 'print "@@RUN@@"\nsc = fn(x: int) -> int {\n  return x + 1\n}\ng = fn() {\n  modify sc = fn(x: str) -> int {\n    return x.len()\n  }\n}\ng()\nprint sc(21)\n'),
    ("argument_fn_same_parameter_names_other_types", 'print "@@RUN@@"\nap = fn(f: fn(int) -> int) -> int {\n  return f(21)\n}\nprint ap(fn(x: str) -> int {\n  return x.len()\n})\n'),
    ("field_fn_same_parameter_names_other_types", 'print "@@RUN@@"\nclass Hh {\n  cb: fn(int) -> int\n  constructor(self) {\n    self.cb = fn(x: int) -> int {\n      return x\n    }\n  }\n}\nh = Hh()\nh.cb = fn(x: str) -> int {\n  return x.len()\n}\n'),
    ("optional_index_into_str", 'print "@@RUN@@"\npick: int? = nil\ns = "abc"\nprint s[pick]\n'),
    ("optional_bigint_index_into_list", 'print "@@RUN@@"\npick: bigint? = B1\nl: [int...] = [4, 5]\nprint l[pick]\n'),
    # unpacking over names that already exist
    ("unpack_over_existing_second_name_other_type_in_block", 'print "@@RUN@@"\nlabel = "neutral"\nweight = 1\nif weight > 0 {\n  [label, weight] = ["positive", "heavy"]\n}\nprint weight * 2 - 1\n'),
    ("unpack_over_existing_first_name_other_type_in_block", 'print "@@RUN@@"\nlabel = "neutral"\nweight = 1\nif weight > 0 {\n  [weight, label] = ["heavy", "positive"]\n}\nprint weight * 2 - 1\n'),
    ("unpack_over_existing_third_name_other_type_in_function", 'print "@@RUN@@"\nf = fn() -> int {\n  a = 1\n  b = 2\n  c = 3\n  while a < 2 {\n    [a, b, c] = [5, 6, "x"]\n  }\n  return c * 2\n}\nprint f()\n'),
    ("unpack_over_existing_same_scope_other_type", 'print "@@RUN@@"\nlabel = "neutral"\nweight = 1\n[label, weight] = ["positive", "heavy"]\nprint weight * 2 - 1\n'),
    ("missing_return_path", 'print "@@RUN@@"\nf = fn(a: int) -> int {\n  if a > 1 {\n    return 1\n  }\n}\nprint f(1)\n'),
    ("missing_return_entirely", 'print "@@RUN@@"\nf = fn(a: int) -> int {\n  print a\n}\nprint f(1)\n'),
    ("void_function_returns_value", 'print "@@RUN@@"\nf = fn(a: int) {\n  return a\n}\nf(1)\n'),
    ("value_from_void_function", 'print "@@RUN@@"\nf = fn(a: int) {\n  print a\n}\nx: int = f(1)\n'),
    ("return_wrong_type_in_else_if", 'print "@@RUN@@"\nf = fn(a: int) -> int {\n  if a > 1 {\n    return 1\n  } else if a > 0 {\n    return "s"\n  }\n  return 2\n}\nprint f(1)\n'),
    ("two_surplus_arguments", 'print "@@RUN@@"\nf = fn(a: int) -> int {\n  return a\n}\nprint f(1, 2, 3)\n'),
    ("surplus_argument_method", 'print "@@RUN@@"\nclass K {\n  constructor(self) {\n  }\n  fn m(self, a: int) -> int {\n    return a\n  }\n}\no = K()\nprint o.m(1, 2)\n'),
    ("surplus_argument_constructor", 'print "@@RUN@@"\nclass K {\n  v: int\n  constructor(self, a: int) {\n    self.v = a\n  }\n}\no = K(1, 2)\nprint o.v\n'),
    ("too_few_arguments_two", 'print "@@RUN@@"\nf = fn(a: int, b: int) -> int {\n  return a + b\n}\nprint f(1)\n'),
    ("not_on_int", 'print "@@RUN@@"\nx = 5\nprint !x\n'),
    ("negate_str", 'print "@@RUN@@"\ns = "a"\nprint -s\n'),
    ("list_minus_int", 'print "@@RUN@@"\nl: [int...] = [1]\nprint l - 1\n'),
    ("assign_through_alias", 'print "@@RUN@@"\ntype Al int\nx: Al = "s"\n'),
    ("wrong_type_in_imported_module_call", None),
    ("unpack_too_many", 'print "@@RUN@@"\nconst l = [1, 2]\n[a, b, c] = l\n'),
    ("assert_non_bool", 'print "@@RUN@@"\nassert 5\n'),
    ("while_non_bool", 'print "@@RUN@@"\nwhile 5 {\n  break\n}\n'),
    ("else_if_non_bool", 'print "@@RUN@@"\nif 1 < 2 {\n  x = 1\n} else if "s" {\n  y = 1\n}\n'),
    ("map_value_wrong", 'print "@@RUN@@"\nm = map[str, int] { "a": "b" }\n'),
    ("list_literal_wrong_elem", 'print "@@RUN@@"\nl: [int...] = [1, "a"]\n'),
    ("push_wrong_type", 'print "@@RUN@@"\nl: [int...] = [1]\nl.push("a")\n'),
    ("compare_str_int", 'print "@@RUN@@"\ns = "a"\nprint s < 1\n'),
    ("void_fn_into_fn_typed_field", 'print "@@RUN@@"\nclass Hf {\n  cb: fn(int) -> int\n  constructor(self) {\n    self.cb = fn(a: int) -> int {\n      return a + 1\n    }\n  }\n}\nhf = Hf()\nhf.cb = fn(a: int) {\n  print a\n}\n'),
    ("void_fn_into_fn_typed_list", 'print "@@RUN@@"\nf2 = fn(a: int) -> int {\n  return a * 2\n}\nl: [fn(int) -> int...] = [f2]\nl[0] = fn(a: int) {\n  print a\n}\n'),
    ("void_fn_into_fn_typed_map", 'print "@@RUN@@"\nm = map[str, fn(int) -> int] { "a": fn(a: int) {\n  print a\n} }\n'),
    ("wrong_arity_fn_into_fn_typed_field", 'print "@@RUN@@"\nclass Hf {\n  cb: fn(int) -> int\n  constructor(self) {\n    self.cb = fn(a: int) -> int {\n      return a + 1\n    }\n  }\n}\nhf = Hf()\nhf.cb = fn() -> int {\n  return 1\n}\n'),
    ("wrong_param_type_fn_argument", 'print "@@RUN@@"\nap = fn(f: fn(int) -> int) -> int {\n  return f(1)\n}\nprint ap(fn(s: str) -> int {\n  return 1\n})\n'),
    ("void_closure_returns_value_in_nested_block", 'print "@@RUN@@"\nouter = fn(a: int) -> int {\n  inner = fn(b: int) {\n    if b > 1 {\n      return b\n    }\n  }\n  inner(a)\n  return a\n}\nprint outer(3)\n'),
    ("optional_bool_condition", 'print "@@RUN@@"\nob: bool? = nil\nif ob {\n  print 1\n}\n'),
    ("optional_bool_while_condition", 'print "@@RUN@@"\nob: bool? = true\nwhile ob {\n  break\n}\n'),
    ("optional_bool_assert", 'print "@@RUN@@"\nob: bool? = true\nassert ob\n'),
    ("not_on_optional_bool", 'print "@@RUN@@"\nob: bool? = true\nprint !ob\n'),
    ("mixed_list_literal_into_open_list", 'print "@@RUN@@"\nl: [int...] = [10, "twenty", 30]\nprint l\n'),
    ("mixed_list_literal_returned", 'print "@@RUN@@"\nf = fn() -> [int...] {\n  return [1, 2, "three"]\n}\nprint f()\n'),
    ("mixed_list_literal_argument", 'print "@@RUN@@"\nf = fn(l: [str...]) -> int {\n  return l.len()\n}\nprint f(["a", 2])\n'),
    ("while_true_break_then_missing_return", 'print "@@RUN@@"\nnm = fn(a: int, b: int) -> int {\n  i = a\n  while true {\n    if i > b {\n      break\n    }\n    return i\n  }\n}\nprint nm(9, 5)\n'),
    ("while_return_missing_after", 'print "@@RUN@@"\nnm = fn(a: int) -> int {\n  while a > 100 {\n    return 1\n  }\n}\nprint nm(1)\n'),
    ("from_return_missing_after", 'print "@@RUN@@"\nnm = fn(a: int) -> int {\n  from 0 to a {\n    return 1\n  }\n}\nprint nm(0)\n'),
    ("else_if_without_else_missing_return", 'print "@@RUN@@"\nnm = fn(a: int) -> int {\n  if a > 1 {\n    return 1\n  } else if a > 0 {\n    return 2\n  }\n}\nprint nm(0)\n'),
    ("other_class_instance_argument", 'print "@@RUN@@"\nclass Sh {\n  s: int\n  constructor(self, s: int) {\n    self.s = s\n  }\n}\nclass Cv {\n  w: int\n  constructor(self) {\n    self.w = 1\n  }\n}\ng = fn(o: Sh) -> int {\n  return o.s\n}\nprint g(Cv())\n'),
    ("other_class_instance_for_self_param_in_method", 'print "@@RUN@@"\nclass Sh {\n  s: int\n  constructor(self, s: int) {\n    self.s = s\n  }\n  fn same(self, o: Self) -> bool {\n    return self.s == o.s\n  }\n}\nclass Cv {\n  w: int\n  constructor(self) {\n    self.w = 1\n  }\n  fn go(self) -> bool {\n    q = Sh(3)\n    return q.same(self)\n  }\n}\nc = Cv()\nprint c.go()\n'),
    ("other_class_instance_for_imported_self_param", None),
    ("fault_in_else_branch", 'print "@@RUN@@"\nn = 3\nlabel = "x"\nif n > 5 {\n  label = "big"\n} else {\n  label = n * 2\n}\nprint label\n'),
    ("fault_in_else_if_condition", 'print "@@RUN@@"\nn = 3\nif n > 5 {\n  q = 1\n} else if "medium" - 1 {\n  q = 2\n}\n'),
    ("fault_in_else_if_body", 'print "@@RUN@@"\nn = 3\nif n > 5 {\n  q = 1\n} else if n > 1 {\n  q = zz_undefined\n} else {\n  q = 3\n}\n'),
    ("fault_in_nested_else", 'print "@@RUN@@"\nn = 3\nif n > 5 {\n  q = 1\n} else {\n  if n > 1 {\n    q = 2\n  } else {\n    q: int = "s"\n  }\n}\n'),
    # third session (area round): an index whose static type is no index type, as a *variable* (the constant forms
    # are folded on another path), in every index position; a method named but not called at the end of a chain
    ("non_index_variable:float:read", 'print "@@RUN@@"\nxs: [int...] = [1, 2, 3]\nsx = "abc"\nat = 1.0\nprint xs[at]\n'),
    ("non_index_variable:float:assign", 'print "@@RUN@@"\nxs: [int...] = [1, 2, 3]\nsx = "abc"\nat = 1.0\nxs[at] = 5\n'),
    ("non_index_variable:float:opassign", 'print "@@RUN@@"\nxs: [int...] = [1, 2, 3]\nsx = "abc"\nat = 1.0\nxs[at] += 5\n'),
    ("non_index_variable:float:str_read", 'print "@@RUN@@"\nxs: [int...] = [1, 2, 3]\nsx = "abc"\nat = 1.0\nprint sx[at]\n'),
    ("non_index_variable:float_param:read", 'print "@@RUN@@"\nxs: [int...] = [1, 2, 3]\nsx = "abc"\npick = fn(at: float) {\n  print xs[at]\n}\npick(1.0)\n'),
    ("non_index_variable:float_param:assign", 'print "@@RUN@@"\nxs: [int...] = [1, 2, 3]\nsx = "abc"\npick = fn(at: float) {\n  xs[at] = 5\n}\npick(1.0)\n'),
    ("non_index_variable:float_param:opassign", 'print "@@RUN@@"\nxs: [int...] = [1, 2, 3]\nsx = "abc"\npick = fn(at: float) {\n  xs[at] += 5\n}\npick(1.0)\n'),
    ("non_index_variable:float_param:str_read", 'print "@@RUN@@"\nxs: [int...] = [1, 2, 3]\nsx = "abc"\npick = fn(at: float) {\n  print sx[at]\n}\npick(1.0)\n'),
    ("non_index_variable:bool:read", 'print "@@RUN@@"\nxs: [int...] = [1, 2, 3]\nsx = "abc"\nat = true\nprint xs[at]\n'),
    ("non_index_variable:bool:assign", 'print "@@RUN@@"\nxs: [int...] = [1, 2, 3]\nsx = "abc"\nat = true\nxs[at] = 5\n'),
    ("non_index_variable:bool:opassign", 'print "@@RUN@@"\nxs: [int...] = [1, 2, 3]\nsx = "abc"\nat = true\nxs[at] += 5\n'),
    ("non_index_variable:bool:str_read", 'print "@@RUN@@"\nxs: [int...] = [1, 2, 3]\nsx = "abc"\nat = true\nprint sx[at]\n'),
    ("non_index_variable:str:read", 'print "@@RUN@@"\nxs: [int...] = [1, 2, 3]\nsx = "abc"\nat = "1"\nprint xs[at]\n'),
    ("non_index_variable:str:assign", 'print "@@RUN@@"\nxs: [int...] = [1, 2, 3]\nsx = "abc"\nat = "1"\nxs[at] = 5\n'),
    ("non_index_variable:str:opassign", 'print "@@RUN@@"\nxs: [int...] = [1, 2, 3]\nsx = "abc"\nat = "1"\nxs[at] += 5\n'),
    ("non_index_variable:str:str_read", 'print "@@RUN@@"\nxs: [int...] = [1, 2, 3]\nsx = "abc"\nat = "1"\nprint sx[at]\n'),
    ("non_index_variable:float_captured:read", 'print "@@RUN@@"\nxs: [int...] = [1, 2, 3]\nsx = "abc"\nat = 2.0\npick = fn() {\n  print xs[at]\n}\npick()\n'),
    ("non_index_variable:float_captured:assign", 'print "@@RUN@@"\nxs: [int...] = [1, 2, 3]\nsx = "abc"\nat = 2.0\npick = fn() {\n  xs[at] = 5\n}\npick()\n'),
    ("non_index_variable:float_captured:opassign", 'print "@@RUN@@"\nxs: [int...] = [1, 2, 3]\nsx = "abc"\nat = 2.0\npick = fn() {\n  xs[at] += 5\n}\npick()\n'),
    ("non_index_variable:float_captured:str_read", 'print "@@RUN@@"\nxs: [int...] = [1, 2, 3]\nsx = "abc"\nat = 2.0\npick = fn() {\n  print sx[at]\n}\npick()\n'),
    ("non_index_variable:optional_int:read", 'print "@@RUN@@"\nxs: [int...] = [1, 2, 3]\nsx = "abc"\nat: int? = 1\nprint xs[at]\n'),
    ("non_index_variable:optional_int:assign", 'print "@@RUN@@"\nxs: [int...] = [1, 2, 3]\nsx = "abc"\nat: int? = 1\nxs[at] = 5\n'),
    ("non_index_variable:optional_int:opassign", 'print "@@RUN@@"\nxs: [int...] = [1, 2, 3]\nsx = "abc"\nat: int? = 1\nxs[at] += 5\n'),
    ("non_index_variable:optional_int:str_read", 'print "@@RUN@@"\nxs: [int...] = [1, 2, 3]\nsx = "abc"\nat: int? = 1\nprint sx[at]\n'),
    ("uncalled_method_at_end_of_chain:field_then_method", 'print "@@RUN@@"\nclass Eng {\n  p: int\n  constructor(self) {\n    self.p = 9\n  }\n  fn describe(self) -> int {\n    return self.p\n  }\n}\nclass Car {\n  engine: Eng\n  constructor(self) {\n    self.engine = Eng()\n  }\n  fn me(self) -> Self {\n    return self\n  }\n  fn eng(self) -> Eng {\n    return self.engine\n  }\n}\ncar = Car()\ndet = car.engine.describe\nprint "kept"\n'),
    ("uncalled_method_at_end_of_chain:field_then_method:argument", 'print "@@RUN@@"\nclass Eng {\n  p: int\n  constructor(self) {\n    self.p = 9\n  }\n  fn describe(self) -> int {\n    return self.p\n  }\n}\nclass Car {\n  engine: Eng\n  constructor(self) {\n    self.engine = Eng()\n  }\n  fn me(self) -> Self {\n    return self\n  }\n  fn eng(self) -> Eng {\n    return self.engine\n  }\n}\ncar = Car()\nuse = fn(f: fn() -> int) -> int {\n  return 1\n}\nprint use(car.engine.describe)\n'),
    ("uncalled_method_at_end_of_chain:call_then_method", 'print "@@RUN@@"\nclass Eng {\n  p: int\n  constructor(self) {\n    self.p = 9\n  }\n  fn describe(self) -> int {\n    return self.p\n  }\n}\nclass Car {\n  engine: Eng\n  constructor(self) {\n    self.engine = Eng()\n  }\n  fn me(self) -> Self {\n    return self\n  }\n  fn eng(self) -> Eng {\n    return self.engine\n  }\n}\ncar = Car()\ndet = car.me().me\nprint "kept"\n'),
    ("uncalled_method_at_end_of_chain:call_then_method:argument", 'print "@@RUN@@"\nclass Eng {\n  p: int\n  constructor(self) {\n    self.p = 9\n  }\n  fn describe(self) -> int {\n    return self.p\n  }\n}\nclass Car {\n  engine: Eng\n  constructor(self) {\n    self.engine = Eng()\n  }\n  fn me(self) -> Self {\n    return self\n  }\n  fn eng(self) -> Eng {\n    return self.engine\n  }\n}\ncar = Car()\nuse = fn(f: fn() -> int) -> int {\n  return 1\n}\nprint use(car.me().me)\n'),
    ("uncalled_method_at_end_of_chain:call_then_field_then_method", 'print "@@RUN@@"\nclass Eng {\n  p: int\n  constructor(self) {\n    self.p = 9\n  }\n  fn describe(self) -> int {\n    return self.p\n  }\n}\nclass Car {\n  engine: Eng\n  constructor(self) {\n    self.engine = Eng()\n  }\n  fn me(self) -> Self {\n    return self\n  }\n  fn eng(self) -> Eng {\n    return self.engine\n  }\n}\ncar = Car()\ndet = car.me().engine.describe\nprint "kept"\n'),
    ("uncalled_method_at_end_of_chain:call_then_field_then_method:argument", 'print "@@RUN@@"\nclass Eng {\n  p: int\n  constructor(self) {\n    self.p = 9\n  }\n  fn describe(self) -> int {\n    return self.p\n  }\n}\nclass Car {\n  engine: Eng\n  constructor(self) {\n    self.engine = Eng()\n  }\n  fn me(self) -> Self {\n    return self\n  }\n  fn eng(self) -> Eng {\n    return self.engine\n  }\n}\ncar = Car()\nuse = fn(f: fn() -> int) -> int {\n  return 1\n}\nprint use(car.me().engine.describe)\n'),
    ("uncalled_method_at_end_of_chain:two_calls_then_method", 'print "@@RUN@@"\nclass Eng {\n  p: int\n  constructor(self) {\n    self.p = 9\n  }\n  fn describe(self) -> int {\n    return self.p\n  }\n}\nclass Car {\n  engine: Eng\n  constructor(self) {\n    self.engine = Eng()\n  }\n  fn me(self) -> Self {\n    return self\n  }\n  fn eng(self) -> Eng {\n    return self.engine\n  }\n}\ncar = Car()\ndet = car.me().eng().describe\nprint "kept"\n'),
    ("uncalled_method_at_end_of_chain:two_calls_then_method:argument", 'print "@@RUN@@"\nclass Eng {\n  p: int\n  constructor(self) {\n    self.p = 9\n  }\n  fn describe(self) -> int {\n    return self.p\n  }\n}\nclass Car {\n  engine: Eng\n  constructor(self) {\n    self.engine = Eng()\n  }\n  fn me(self) -> Self {\n    return self\n  }\n  fn eng(self) -> Eng {\n    return self.engine\n  }\n}\ncar = Car()\nuse = fn(f: fn() -> int) -> int {\n  return 1\n}\nprint use(car.me().eng().describe)\n'),
    ("uncalled_method_at_end_of_chain:single_link", 'print "@@RUN@@"\nclass Eng {\n  p: int\n  constructor(self) {\n    self.p = 9\n  }\n  fn describe(self) -> int {\n    return self.p\n  }\n}\nclass Car {\n  engine: Eng\n  constructor(self) {\n    self.engine = Eng()\n  }\n  fn me(self) -> Self {\n    return self\n  }\n  fn eng(self) -> Eng {\n    return self.engine\n  }\n}\ncar = Car()\ndet = car.me\nprint "kept"\n'),
    ("uncalled_method_at_end_of_chain:single_link:argument", 'print "@@RUN@@"\nclass Eng {\n  p: int\n  constructor(self) {\n    self.p = 9\n  }\n  fn describe(self) -> int {\n    return self.p\n  }\n}\nclass Car {\n  engine: Eng\n  constructor(self) {\n    self.engine = Eng()\n  }\n  fn me(self) -> Self {\n    return self\n  }\n  fn eng(self) -> Eng {\n    return self.engine\n  }\n}\ncar = Car()\nuse = fn(f: fn() -> int) -> int {\n  return 1\n}\nprint use(car.me)\n'),
    ("uncalled_method_at_end_of_chain:builtin_after_field", 'print "@@RUN@@"\nclass Eng {\n  p: int\n  constructor(self) {\n    self.p = 9\n  }\n  fn describe(self) -> int {\n    return self.p\n  }\n}\nclass Car {\n  engine: Eng\n  constructor(self) {\n    self.engine = Eng()\n  }\n  fn me(self) -> Self {\n    return self\n  }\n  fn eng(self) -> Eng {\n    return self.engine\n  }\n}\ncar = Car()\ndet = car.engine.p.abs\nprint "kept"\n'),
    ("uncalled_method_at_end_of_chain:builtin_after_field:argument", 'print "@@RUN@@"\nclass Eng {\n  p: int\n  constructor(self) {\n    self.p = 9\n  }\n  fn describe(self) -> int {\n    return self.p\n  }\n}\nclass Car {\n  engine: Eng\n  constructor(self) {\n    self.engine = Eng()\n  }\n  fn me(self) -> Self {\n    return self\n  }\n  fn eng(self) -> Eng {\n    return self.engine\n  }\n}\ncar = Car()\nuse = fn(f: fn() -> int) -> int {\n  return 1\n}\nprint use(car.engine.p.abs)\n'),
    # round 6 (side remarks of a break agent about the pinned tree, repaired): methods that do not return on every path,
    # a byte next to a non-number, op-assignments whose result has another numeric kind than the target
    ("method_missing_return:if_only", 'print "@@RUN@@"\nclass Kq {\n  v: int\n  constructor(self) {\n    self.v = 1\n  }\n  fn g(self) -> int {\n    if self.v > 5 {\n      return 1\n    }\n  }\n}\nkq = Kq()\nprint kq.g()\n'),
    ("method_missing_return:else_if_without_else", 'print "@@RUN@@"\nclass Kq {\n  v: int\n  constructor(self) {\n    self.v = 1\n  }\n  fn g(self) -> int {\n    if self.v > 5 {\n      return 1\n    } else if self.v > 2 {\n      return 2\n    }\n  }\n}\nkq = Kq()\nprint kq.g()\n'),
    ("method_missing_return:while_only", 'print "@@RUN@@"\nclass Kq {\n  v: int\n  constructor(self) {\n    self.v = 1\n  }\n  fn g(self) -> int {\n    while self.v > 5 {\n      return 1\n    }\n  }\n}\nkq = Kq()\nprint kq.g()\n'),
    ("method_missing_return:empty_body", 'print "@@RUN@@"\nclass Kq {\n  v: int\n  constructor(self) {\n    self.v = 1\n  }\n  fn g(self) -> str {\n  }\n}\nkq = Kq()\nprint kq.g()\n'),
    ("method_missing_return:else_branch_missing", 'print "@@RUN@@"\nclass Kq {\n  v: int\n  constructor(self) {\n    self.v = 1\n  }\n  fn g(self) -> int {\n    if self.v > 5 {\n      return 1\n    } else {\n      self.v = 2\n    }\n  }\n}\nkq = Kq()\nprint kq.g()\n'),
    ("byte_with_non_number:bool_plus_byte", 'print "@@RUN@@"\nyb = 0b1\nprint true + yb\n'),
    ("byte_with_non_number:byte_plus_bool", 'print "@@RUN@@"\nyb = 0b1\nprint yb + false\n'),
    ("byte_with_non_number:str_minus_byte", 'print "@@RUN@@"\nyb = 0b1\nprint "a" - yb\n'),
    ("byte_with_non_number:byte_times_str", 'print "@@RUN@@"\nyb = 0b1\nprint yb * "ab"\n'),
    ("byte_with_non_number:list_plus_byte", 'print "@@RUN@@"\nyb = 0b1\nprint [1] + yb\n'),
    ("byte_with_non_number:byte_less_than_bool", 'print "@@RUN@@"\nyb = 0b1\nprint yb < true\n'),
    ("byte_with_non_number:byte_and_bool", 'print "@@RUN@@"\nyb = 0b1\nprint yb & true\n'),
    ("opassign_promoting_kind:int_bigint", 'print "@@RUN@@"\nav = 1\nav += B5\nprint av\n'),
    ("opassign_promoting_kind:int_bigint:in_function", 'print "@@RUN@@"\ngo = fn() {\n  av = 1\n  av += B5\n  print av\n}\ngo()\n'),
    ("opassign_promoting_kind:int_float", 'print "@@RUN@@"\nav = 1\nav *= 1.5\nprint av\n'),
    ("opassign_promoting_kind:int_float:in_function", 'print "@@RUN@@"\ngo = fn() {\n  av = 1\n  av *= 1.5\n  print av\n}\ngo()\n'),
    ("opassign_promoting_kind:byte_int", 'print "@@RUN@@"\nav = 0b1\nav += 300\nprint av\n'),
    ("opassign_promoting_kind:byte_int:in_function", 'print "@@RUN@@"\ngo = fn() {\n  av = 0b1\n  av += 300\n  print av\n}\ngo()\n'),
    ("opassign_promoting_kind:byte_bigint", 'print "@@RUN@@"\nav = 0b1\nav -= B1\nprint av\n'),
    ("opassign_promoting_kind:byte_bigint:in_function", 'print "@@RUN@@"\ngo = fn() {\n  av = 0b1\n  av -= B1\n  print av\n}\ngo()\n'),
    ("opassign_promoting_kind:int_bigint_var", 'print "@@RUN@@"\nav = 1\nkv = B5\nav += kv\nprint av\n'),
    ("opassign_promoting_kind:int_bigint_var:in_function", 'print "@@RUN@@"\ngo = fn() {\n  av = 1\n  kv = B5\n  av += kv\n  print av\n}\ngo()\n'),
    ("opassign_promoting_kind:bigint_float", 'print "@@RUN@@"\nav = B1\nav /= 2.0\nprint av\n'),
    ("opassign_promoting_kind:bigint_float:in_function", 'print "@@RUN@@"\ngo = fn() {\n  av = B1\n  av /= 2.0\n  print av\n}\ngo()\n'),
    ("opassign_promoting_kind:list_element_int_bigint", 'print "@@RUN@@"\nlv: [int...] = [1]\nlv[0] += B2\nprint lv\n'),
    ("opassign_promoting_kind:field_int_float", 'print "@@RUN@@"\nclass Fq {\n  n: int\n  constructor(self) {\n    self.n = 1\n  }\n}\nfq = Fq()\nfq.n += 1.5\nprint fq.n\n'),
    # round 9: open-list methods on fixed-shape lists that are NOT homogeneous (mismatch across an aligned pair, odd last
    # element); a byte variable as a list index; zero-parameter function types that differ in the return type only
    ("open_list_method_on_mixed_fixed_list:int_int_str:map", 'print "@@RUN@@"\nconst row = [10, 20, "thirty"]\nzq = row.map(fn(e: int) -> int {\n  return e - 1\n})\nprint "kept"\n'),
    ("open_list_method_on_mixed_fixed_list:int_int_str:remove", 'print "@@RUN@@"\nconst row = [10, 20, "thirty"]\nzq = row.remove(2)\nprint "kept"\n'),
    ("open_list_method_on_mixed_fixed_list:int_int_str:push", 'print "@@RUN@@"\nconst row = [10, 20, "thirty"]\nzq = row.push(4)\nprint "kept"\n'),
    ("open_list_method_on_mixed_fixed_list:int_int_str:index_of", 'print "@@RUN@@"\nconst row = [10, 20, "thirty"]\nzq = row.index_of(20)\nprint "kept"\n'),
    ("open_list_method_on_mixed_fixed_list:int_int_str:filter", 'print "@@RUN@@"\nconst row = [10, 20, "thirty"]\nzq = row.filter(fn(e: int) -> bool {\n  return e > 1\n})\nprint "kept"\n'),
    ("open_list_method_on_mixed_fixed_list:int_int_str:reverse", 'print "@@RUN@@"\nconst row = [10, 20, "thirty"]\nzq = row.reverse()\nprint "kept"\n'),
    ("open_list_method_on_mixed_fixed_list:str_int_int:map", 'print "@@RUN@@"\nconst row = ["a", 2, 3]\nzq = row.map(fn(e: int) -> int {\n  return e - 1\n})\nprint "kept"\n'),
    ("open_list_method_on_mixed_fixed_list:str_int_int:remove", 'print "@@RUN@@"\nconst row = ["a", 2, 3]\nzq = row.remove(2)\nprint "kept"\n'),
    ("open_list_method_on_mixed_fixed_list:str_int_int:push", 'print "@@RUN@@"\nconst row = ["a", 2, 3]\nzq = row.push(4)\nprint "kept"\n'),
    ("open_list_method_on_mixed_fixed_list:str_int_int:index_of", 'print "@@RUN@@"\nconst row = ["a", 2, 3]\nzq = row.index_of(20)\nprint "kept"\n'),
    ("open_list_method_on_mixed_fixed_list:str_int_int:filter", 'print "@@RUN@@"\nconst row = ["a", 2, 3]\nzq = row.filter(fn(e: int) -> bool {\n  return e > 1\n})\nprint "kept"\n'),
    ("open_list_method_on_mixed_fixed_list:str_int_int:reverse", 'print "@@RUN@@"\nconst row = ["a", 2, 3]\nzq = row.reverse()\nprint "kept"\n'),
    ("open_list_method_on_mixed_fixed_list:int_int_str_str:map", 'print "@@RUN@@"\nconst row = [1, 2, "x", "y"]\nzq = row.map(fn(e: int) -> int {\n  return e - 1\n})\nprint "kept"\n'),
    ("open_list_method_on_mixed_fixed_list:int_int_str_str:remove", 'print "@@RUN@@"\nconst row = [1, 2, "x", "y"]\nzq = row.remove(2)\nprint "kept"\n'),
    ("open_list_method_on_mixed_fixed_list:int_int_str_str:push", 'print "@@RUN@@"\nconst row = [1, 2, "x", "y"]\nzq = row.push(4)\nprint "kept"\n'),
    ("open_list_method_on_mixed_fixed_list:int_int_str_str:index_of", 'print "@@RUN@@"\nconst row = [1, 2, "x", "y"]\nzq = row.index_of(20)\nprint "kept"\n'),
    ("open_list_method_on_mixed_fixed_list:int_int_str_str:filter", 'print "@@RUN@@"\nconst row = [1, 2, "x", "y"]\nzq = row.filter(fn(e: int) -> bool {\n  return e > 1\n})\nprint "kept"\n'),
    ("open_list_method_on_mixed_fixed_list:int_int_str_str:reverse", 'print "@@RUN@@"\nconst row = [1, 2, "x", "y"]\nzq = row.reverse()\nprint "kept"\n'),
    ("open_list_method_on_mixed_fixed_list:int_int_int_int_str:map", 'print "@@RUN@@"\nconst row = [1, 2, 3, 4, "z"]\nzq = row.map(fn(e: int) -> int {\n  return e - 1\n})\nprint "kept"\n'),
    ("open_list_method_on_mixed_fixed_list:int_int_int_int_str:remove", 'print "@@RUN@@"\nconst row = [1, 2, 3, 4, "z"]\nzq = row.remove(2)\nprint "kept"\n'),
    ("open_list_method_on_mixed_fixed_list:int_int_int_int_str:push", 'print "@@RUN@@"\nconst row = [1, 2, 3, 4, "z"]\nzq = row.push(4)\nprint "kept"\n'),
    ("open_list_method_on_mixed_fixed_list:int_int_int_int_str:index_of", 'print "@@RUN@@"\nconst row = [1, 2, 3, 4, "z"]\nzq = row.index_of(20)\nprint "kept"\n'),
    ("open_list_method_on_mixed_fixed_list:int_int_int_int_str:filter", 'print "@@RUN@@"\nconst row = [1, 2, 3, 4, "z"]\nzq = row.filter(fn(e: int) -> bool {\n  return e > 1\n})\nprint "kept"\n'),
    ("open_list_method_on_mixed_fixed_list:int_int_int_int_str:reverse", 'print "@@RUN@@"\nconst row = [1, 2, 3, 4, "z"]\nzq = row.reverse()\nprint "kept"\n'),
    ("open_list_method_on_mixed_fixed_list:int_str:map", 'print "@@RUN@@"\nconst row = [1, "b"]\nzq = row.map(fn(e: int) -> int {\n  return e - 1\n})\nprint "kept"\n'),
    ("open_list_method_on_mixed_fixed_list:int_str:remove", 'print "@@RUN@@"\nconst row = [1, "b"]\nzq = row.remove(1)\nprint "kept"\n'),
    ("open_list_method_on_mixed_fixed_list:int_str:push", 'print "@@RUN@@"\nconst row = [1, "b"]\nzq = row.push(4)\nprint "kept"\n'),
    ("open_list_method_on_mixed_fixed_list:int_str:index_of", 'print "@@RUN@@"\nconst row = [1, "b"]\nzq = row.index_of(20)\nprint "kept"\n'),
    ("open_list_method_on_mixed_fixed_list:int_str:filter", 'print "@@RUN@@"\nconst row = [1, "b"]\nzq = row.filter(fn(e: int) -> bool {\n  return e > 1\n})\nprint "kept"\n'),
    ("open_list_method_on_mixed_fixed_list:int_str:reverse", 'print "@@RUN@@"\nconst row = [1, "b"]\nzq = row.reverse()\nprint "kept"\n'),
    ("open_list_method_on_mixed_fixed_list:int_int_float:map", 'print "@@RUN@@"\nconst row = [1, 2, 2.5]\nzq = row.map(fn(e: int) -> int {\n  return e - 1\n})\nprint "kept"\n'),
    ("open_list_method_on_mixed_fixed_list:int_int_float:remove", 'print "@@RUN@@"\nconst row = [1, 2, 2.5]\nzq = row.remove(2)\nprint "kept"\n'),
    ("open_list_method_on_mixed_fixed_list:int_int_float:push", 'print "@@RUN@@"\nconst row = [1, 2, 2.5]\nzq = row.push(4)\nprint "kept"\n'),
    ("open_list_method_on_mixed_fixed_list:int_int_float:index_of", 'print "@@RUN@@"\nconst row = [1, 2, 2.5]\nzq = row.index_of(20)\nprint "kept"\n'),
    ("open_list_method_on_mixed_fixed_list:int_int_float:filter", 'print "@@RUN@@"\nconst row = [1, 2, 2.5]\nzq = row.filter(fn(e: int) -> bool {\n  return e > 1\n})\nprint "kept"\n'),
    ("open_list_method_on_mixed_fixed_list:int_int_float:reverse", 'print "@@RUN@@"\nconst row = [1, 2, 2.5]\nzq = row.reverse()\nprint "kept"\n'),
    ("open_list_method_on_mixed_fixed_list:int_int_bool_bool:map", 'print "@@RUN@@"\nconst row = [1, 2, true, false]\nzq = row.map(fn(e: int) -> int {\n  return e - 1\n})\nprint "kept"\n'),
    ("open_list_method_on_mixed_fixed_list:int_int_bool_bool:remove", 'print "@@RUN@@"\nconst row = [1, 2, true, false]\nzq = row.remove(2)\nprint "kept"\n'),
    ("open_list_method_on_mixed_fixed_list:int_int_bool_bool:push", 'print "@@RUN@@"\nconst row = [1, 2, true, false]\nzq = row.push(4)\nprint "kept"\n'),
    ("open_list_method_on_mixed_fixed_list:int_int_bool_bool:index_of", 'print "@@RUN@@"\nconst row = [1, 2, true, false]\nzq = row.index_of(20)\nprint "kept"\n'),
    ("open_list_method_on_mixed_fixed_list:int_int_bool_bool:filter", 'print "@@RUN@@"\nconst row = [1, 2, true, false]\nzq = row.filter(fn(e: int) -> bool {\n  return e > 1\n})\nprint "kept"\n'),
    ("open_list_method_on_mixed_fixed_list:int_int_bool_bool:reverse", 'print "@@RUN@@"\nconst row = [1, 2, true, false]\nzq = row.reverse()\nprint "kept"\n'),
    ("non_index_variable:byte:read", 'print "@@RUN@@"\nxs: [int...] = [1, 2, 3]\nat = 0b1\nprint xs[at]\n'),
    ("non_index_variable:byte:assign", 'print "@@RUN@@"\nxs: [int...] = [1, 2, 3]\nat = 0b1\nxs[at] = 5\n'),
    ("non_index_variable:byte:opassign", 'print "@@RUN@@"\nxs: [int...] = [1, 2, 3]\nat = 0b1\nxs[at] += 5\n'),
    ("non_index_variable:byte_param:read", 'print "@@RUN@@"\nxs: [int...] = [1, 2, 3]\npick = fn(at: byte) {\n  print xs[at]\n}\npick(0b1)\n'),
    ("non_index_variable:byte_param:assign", 'print "@@RUN@@"\nxs: [int...] = [1, 2, 3]\npick = fn(at: byte) {\n  xs[at] = 5\n}\npick(0b1)\n'),
    ("non_index_variable:byte_param:opassign", 'print "@@RUN@@"\nxs: [int...] = [1, 2, 3]\npick = fn(at: byte) {\n  xs[at] += 5\n}\npick(0b1)\n'),
    ("non_index_variable:byte_typed:read", 'print "@@RUN@@"\nxs: [int...] = [1, 2, 3]\nat: byte = 0b1\nprint xs[at]\n'),
    ("non_index_variable:byte_typed:assign", 'print "@@RUN@@"\nxs: [int...] = [1, 2, 3]\nat: byte = 0b1\nxs[at] = 5\n'),
    ("non_index_variable:byte_typed:opassign", 'print "@@RUN@@"\nxs: [int...] = [1, 2, 3]\nat: byte = 0b1\nxs[at] += 5\n'),
    ("zero_parameter_function_other_return_type:argument", 'print "@@RUN@@"\nmkn = fn() -> int {\n  return 42\n}\nmks = fn() -> str {\n  return "s"\n}\nuse = fn(p: fn() -> str) -> str {\n  return p() + "!"\n}\nprint use(mkn)\n'),
    ("zero_parameter_function_other_return_type:annotated_initialiser", 'print "@@RUN@@"\nmkn = fn() -> int {\n  return 42\n}\nmks = fn() -> str {\n  return "s"\n}\nh: fn() -> str = mkn\nprint h()\n'),
    ("zero_parameter_function_other_return_type:reassignment", 'print "@@RUN@@"\nmkn = fn() -> int {\n  return 42\n}\nmks = fn() -> str {\n  return "s"\n}\nh = mks\nh = mkn\nprint h()\n'),
    ("zero_parameter_function_other_return_type:return", 'print "@@RUN@@"\nmkn = fn() -> int {\n  return 42\n}\nmks = fn() -> str {\n  return "s"\n}\npick = fn() -> fn() -> str {\n  return mkn\n}\nprint (pick())()\n'),
    ("zero_parameter_function_other_return_type:list_element", 'print "@@RUN@@"\nmkn = fn() -> int {\n  return 42\n}\nmks = fn() -> str {\n  return "s"\n}\nhs: [fn() -> str...] = [mks, mkn]\nprint hs.len()\n'),
    ("zero_parameter_function_other_return_type:field", 'print "@@RUN@@"\nmkn = fn() -> int {\n  return 42\n}\nmks = fn() -> str {\n  return "s"\n}\nclass Hq {\n  f: fn() -> str\n  constructor(self) {\n    self.f = mkn\n  }\n}\nhq = Hq()\nprint "kept"\n'),
    ("zero_parameter_function_other_return_type:literal_argument", 'print "@@RUN@@"\nmkn = fn() -> int {\n  return 42\n}\nmks = fn() -> str {\n  return "s"\n}\nuse = fn(p: fn() -> str) -> str {\n  return p()\n}\nprint use(fn() -> int {\n  return 1\n})\n'),
    ("zero_parameter_function_other_return_type:void_vs_value", 'print "@@RUN@@"\nmkn = fn() -> int {\n  return 42\n}\nmks = fn() -> str {\n  return "s"\n}\nuse = fn(p: fn() -> str) -> str {\n  return p()\n}\nvq = fn() {\n}\nprint use(vq)\n'),
    ("opassign_promoting_kind:alias_int_float", 'print "@@RUN@@"\ntype Tq int\nxq: Tq = 1\nxq += 1.5\nprint xq\n'),
    ("opassign_promoting_kind:alias_int_bigint_in_function", 'print "@@RUN@@"\ntype Tq int\ngo = fn() {\n  xq: Tq = 1\n  xq *= B5\n  print xq\n}\ngo()\n'),
    ("opassign_promoting_kind:alias_byte_int", 'print "@@RUN@@"\ntype Bq byte\nxq: Bq = 0b1\nxq += 300\nprint xq\n'),
    ("call_result_of_call_arg_type", 'print "@@RUN@@"\nf = fn(a: str) -> int {\n  return 1\n}\ng = fn(b: int) -> int {\n  return b\n}\nprint f(g(1))\n'),
]


# faults that need more than one file: a fault INSIDE an imported module (whatever import form reaches it first),
# and same-named classes of two modules (a class is identified by its file as well)
_LIBOK = 'export area: fn(int) -> int = fn(a: int) -> int {\n  return a * 2\n}\nexport type Tq int\n'
_MODULE_FAULTS = [("wrong_initialiser", 'bad: int = "s"\n'), ("unknown_name", 'bad = zz_undefined + 1\n'),
                  ("non_bool_condition", 'if 1 {\n  bad = 1\n}\n'), ("wrong_argument_type", 'bad = area("s")\n'),
                  ("wrong_typed_reassignment", 'okv = 1\nokv = "s"\n')]
_IMPORT_FORMS = [("names", 'import area from lib\nprint area(2)\n'), ("type_only", 'import type Tq from lib\nq: Tq = 1\nprint q\n'),
                 ("names_and_type", 'import area, type Tq from lib\nprint area(2)\n'), ("plain", 'import lib\nprint lib.area(2)\n'),
                 ("names_then_plain", 'import area from lib\nimport lib\nprint lib.area(2)\n'),
                 ("through_middle_module", 'import mid\nprint mid.twice(2)\n')]
for _fn, _fl in _MODULE_FAULTS:
    for _in, _il in _IMPORT_FORMS:
        _files = {"main.ms": 'print "@@RUN@@"\n' + _il, "lib.ms": _LIBOK + _fl}
        if _in == "through_middle_module":
            _files["mid.ms"] = 'import area from lib\nexport twice: fn(int) -> int = fn(a: int) -> int {\n  return area(a)\n}\n'
        EXTRA.append(("module_fault:%s:import_%s" % (_fn, _in), _files))
# round 6: `Self` of an imported class must be resolved against the RECEIVER's class also when the receiver is typed
# through an alias (or is a parameter / field of alias type) and the call stands inside another class
_SHLIB = 'export class Sh {\n  s: int\n  constructor(self, s: int) {\n    self.s = s\n  }\n  fn same(self, o: Self) -> bool {\n    return self.s == o.s\n  }\n  fn plus(self, o: Self) -> int {\n    return self.s + o.s\n  }\n}\n'
for _rn, _imp, _decl, _recv in (
        ("alias_local", "import Sh from lib\ntype Length Sh\n", "    q: Length = Sh(3)\n", "q"),
        ("alias_param", "import Sh from lib\ntype Length Sh\n", None, "m"),
        ("alias_of_alias_local", "import Sh from lib\ntype Len0 Sh\ntype Length Len0\n", "    q: Length = Sh(3)\n", "q"),
        ("plain_param", "import Sh from lib\n", None, "m")):
    _pty = "Length" if "alias" in _rn else "Sh"
    if _decl is None:
        _body = ('class Cv {\n  w: int\n  constructor(self) {\n    self.w = 1\n  }\n  fn go(self, m: %s) -> int {\n    return m.plus(self)\n  }\n}\nc = Cv()\nprint c.go(Sh(3))\n' % _pty)
    else:
        _body = ('class Cv {\n  w: int\n  constructor(self) {\n    self.w = 1\n  }\n  fn go(self) -> int {\n%s    return %s.plus(self)\n  }\n}\nc = Cv()\nprint c.go()\n' % (_decl, _recv))
    EXTRA.append(("other_class_instance_for_imported_self_param:%s" % _rn, {"main.ms": 'print "@@RUN@@"\n' + _imp + _body, "lib.ms": _SHLIB}))
_PIX = 'export class Point {\n  x: int\n  y: int\n  constructor(self, x: int, y: int) {\n    self.x = x\n    self.y = y\n  }\n}\n'
_LAB = 'export class Point {\n  x: str\n  y: str\n  constructor(self, x: str, y: str) {\n    self.x = x\n    self.y = y\n  }\n}\n'
EXTRA.append(("same_named_class_of_another_module_as_argument",
              {"main.ms": 'print "@@RUN@@"\nimport Point from pixels\nimport labels\nleft = fn(p: Point) -> int {\n  return p.x\n}\ncell = labels.Point("C", "7")\nv = left(cell)\nprint v + 1\n',
               "pixels.ms": _PIX, "labels.ms": _LAB}))
EXTRA.append(("same_named_class_of_another_module_assigned",
              {"main.ms": 'print "@@RUN@@"\nimport Point from pixels\nimport labels\np = Point(1, 2)\np = labels.Point("C", "7")\nprint p.x + 1\n',
               "pixels.ms": _PIX, "labels.ms": _LAB}))
EXTRA.append(("same_named_class_of_another_module_in_list",
              {"main.ms": 'print "@@RUN@@"\nimport Point from pixels\nimport labels\nl: [Point...] = [Point(1, 2)]\nl.push(labels.Point("C", "7"))\nprint l.len()\n',
               "pixels.ms": _PIX, "labels.ms": _LAB}))


# `modify name: T = value` re-states a type: it must be the type the captured variable has
_MT = [("int", "0", "7"), ("str", '"s"', '"t"'), ("bool", "true", "false"), ("float", "1.5", "2.5"), ("[int...]", "[1]", "[2, 3]")]
_MCTX = [("function", 'g = fn() {\n  %s\n}\ng()\n'),
         ("nested_function", 'g = fn() {\n  h = fn() {\n    %s\n  }\n  h()\n}\ng()\n'),
         ("if_in_function", 'g = fn(c: bool) {\n  if c {\n    %s\n  }\n}\ng(true)\n'),
         ("method", 'class Km {\n  constructor(self) {}\n  fn go(self) {\n    %s\n  }\n}\nkm = Km()\nkm.go()\n')]
for _t1, _v1, _w1 in _MT:
    for _cn, _cx in _MCTX:
        EXTRA.append(("control:typed_modify:%s:%s" % (_t1, _cn),
                      'print "@@RUN@@"\ntotal: %s = %s\n' % (_t1, _v1) + _cx % ("modify total: %s = %s" % (_t1, _w1)) + 'print total\n'))
        for _t2, _v2, _w2 in _MT:
            if _t2 != _t1:
                EXTRA.append(("typed_modify_other_type:%s_as_%s:%s" % (_t1, _t2, _cn),
                              'print "@@RUN@@"\ntotal: %s = %s\n' % (_t1, _v1) + _cx % ("modify total: %s = %s" % (_t2, _w2)) + 'print total\n'))


def work_extra(item):
    name, src = item
    files = dict(src) if isinstance(src, dict) else {"main.ms": src}
    if src is None and name == "other_class_instance_for_imported_self_param":
        files = {"main.ms": 'print "@@RUN@@"\nimport Sh from lib\nclass Cv {\n  w: int\n  constructor(self) {\n    self.w = 1\n  }\n  fn go(self) -> bool {\n    q = Sh(3)\n    return q.same(self)\n  }\n}\nc = Cv()\nprint c.go()\n',
                 "lib.ms": 'export class Sh {\n  s: int\n  constructor(self, s: int) {\n    self.s = s\n  }\n  fn same(self, o: Self) -> bool {\n    return self.s == o.s\n  }\n}\n'}
    elif src is None:
        files = {"main.ms": 'print "@@RUN@@"\nimport lib\nprint lib.f("s")\n',
                 "lib.ms": 'export f: fn(int) -> int = fn(a: int) -> int {\n  return a\n}\n'}
    r, _, _ = core.run_program(files, cpu=10)
    ran = "@@RUN@@" in r.out
    if r.cls in ("wall_timeout", "cpu_timeout", "spawn_error"):
        v = "inconclusive"
    elif r.cls == "panic" and not ran:
        v = "panic"
    elif ran or r.cls == "ok":
        v = "accepted"
    elif r.cls != "fail":
        v = "odd_exit"
    elif not re.search(r"\.ms:\d+:\d+", r.out + r.err):
        v = "no_position"
    else:
        v = "rejected"
    return {"name": name, "verdict": v, "files": files, "run": r.brief()}


def run(ctx):
    out = core.Outcome()
    out.level = "fault_enumeration"
    base = ctx.seed * 1000003 + 7
    seeds = [base + i for i in range(ctx.n(30, 500))]
    results = core.pmap(work, seeds, chunksize=1)
    extra = core.pmap(work_extra, EXTRA, chunksize=2)
    by_kind = {}
    bases = clean = 0
    compile_checked = 0
    for status, res in results:
        if status != "ok":
            out.inconclusive.append(str(res)[-400:])
            continue
        bases += 1
        if res["base"] != "clean":
            continue
        clean += 1
        out.evaluations += res["triples"]
        compile_checked += res["compile_checked"]
        for k, v in res["by_kind"].items():
            by_kind[k] = by_kind.get(k, 0) + v
        for _ in range(res["inconclusive"]):
            out.inconclusive.append("timeout in seed %d" % res["seed"])
        for p in res["problems"]:
            out.violations.append(core.Violation(p["sig"], p["what"], {k: v for k, v in p.items() if k not in ("sig", "what")}))
    for status, res in extra:
        if status != "ok":
            out.inconclusive.append(str(res)[-400:])
            continue
        out.evaluations += 1
        by_kind["catalogue/" + res["name"]] = 1
        if res["verdict"] == "inconclusive":
            out.inconclusive.append(res["name"])
        elif res["name"].startswith("control:"):
            # the well-typed twin of a fault family: when it is not accepted the family proves nothing
            if res["verdict"] != "accepted":
                out.inconclusive.append("%s is %s: its fault family is vacuous" % (res["name"], res["verdict"]))
        elif res["verdict"] != "rejected":
            out.violations.append(core.Violation("C03:catalogue:%s:%s" % (res["name"], res["verdict"]),
                                                 "ill-typed catalogue program `%s` -> %s" % (res["name"], res["verdict"]),
                                                 {"files": res["files"], "run": res["run"]}))
    for k in by_kind:
        out.distinct.add(k)
    text, sites, g = tgen.gen(base)
    s0 = next((s for s in sites if s.kind == "arg"), sites[0])
    out.samples.append({"base_seed": base, "site": [s0.kind, str(s0.typ), s0.ctx, "line %d" % (s0.line + 1), s0.text],
                        "faults": faults_for(s0), "mutated_line": tgen.splice(text, s0, faults_for(s0)[0][1]).split("\n")[s0.line]})
    out.coverage.update({"base_programs_generated": bases, "base_programs_accepted_and_clean": clean,
                         "triples_by_site_kind_and_fault": by_kind, "compile_subcommand_cross_checks": compile_checked,
                         "catalogue_programs": len(EXTRA)})
    out.rule = ("triples (program, site, fault): every recorded typed site (initializer, re-assignment, argument, argument "
                "count, return, condition, operator operand, index, indexed value, field, method, callee, loop bound, map "
                "key/value, op-assign) of every accepted-and-clean generated program x every applicable fault; plus %d "
                "whole-program catalogue faults. evaluations = mutated programs judged. distinct_nontrivial = distinct "
                "(site kind, fault) cells exercised." % len(EXTRA))
    out.assumptions = ["only edits that are ill-typed under every reading are in the catalogue (str + any, numeric kind "
                       "mixing, int into int? are legal and never used as faults)",
                       "compiler diagnostics are on stdout; 'nothing ran' = sentinel first statement absent"]
    if clean == 0:
        out.observed_nothing = "no accepted-and-clean base program"
    return out


def replay(path):
    src = open(os.path.join(path, "files", "main.ms")).read()
    files = {"main.ms": src}
    lib = os.path.join(path, "files", "lib.ms")
    if os.path.exists(lib):
        files["lib.ms"] = open(lib).read()
    r, _, _ = core.run_program(files, cpu=10)
    print(r.cls, r.out[-800:], r.err[-300:])
    ok = r.cls == "fail" and "@@RUN@@" not in r.out
    return 0 if ok else 1
