"""C11 — modules initialise exactly once, in import order, and share one instance.

Workload: multi-module projects of models/modules.py — every import DAG on <= 3 modules (quick; <= 4 thorough)
x import form per edge x placement of every import x statement order x directory placement, a seeded sample on
4-5 modules (with imports inside executed / non-executed blocks), negative twins that must be rejected by the
compiler, the path-spelling dimension and two pinned catalogue cases.  Every project runs through `run` and
through `compile` + `execute`.  Oracle: exact stdout + the H-MOD hit/miss events of the interpreter's cache."""
import json
import os

from .. import core, tracecheck
from ..models import modules as mm

MODE = os.environ.get("C11_MODEL_MODE", "once")     # only for validating the engine against a wrong model

SENTINEL = "@@RUN@@"


def observed_events(extras):
    tr = extras.get("trace")
    if tr is None:
        return None
    _, stats = tracecheck.check_trace(tr, None, normal_exit=False)
    return [mm.norm_event(k, p, extras.get("base")) for k, p in stats["modules"]]


def run_launch(files, launch, mode):
    """Run a project that lives in <case>/proj/ with the entry named as seen from its own directory ('cwd'), by a
    relative path from the parent directory ('parent': cwd != entry directory) or by an absolute path ('abs').
    -> (Res, extras) like core.run_program."""
    d = core.case_dir("c11l")
    try:
        core.write_files(d, {"proj/" + k: v for k, v in files.items()})
        if launch == "cwd":
            cwd, entry, base = os.path.join(d, "proj"), "main.ms", None
        elif launch == "parent":
            cwd, entry, base = d, "proj/main.ms", "proj"
        else:
            cwd, entry, base = d, os.path.join(d, "proj", "main.ms"), os.path.join(d, "proj")
        tr = os.path.join(d, "_trace.log")
        env = {"MSCRIPT_VERIF_TRACE": tr}
        extras = {"base": base}
        if mode == "run":
            r = core.run(core.ms("run", entry, "-q"), cwd, env, cpu=10)
        else:
            r1 = core.run(core.ms("compile", entry, "--quick"), cwd, env, cpu=10)
            extras["compile"] = r1
            r = core.run(core.ms("execute", entry[:-3] + ".mmm"), cwd, env, cpu=10) if r1.cls == "ok" else r1
        if os.path.exists(tr):
            with open(tr, encoding="utf-8", errors="replace") as f:
                extras["trace"] = f.read()
        return r, extras
    finally:
        core.rm(d)


def rejected(r, extras):
    c = extras.get("compile")
    return core.compile_rejected(c if c is not None and c.cls != "ok" else r)


def run_modes(files, launch=None):
    """-> list of (mode, Res, extras)"""
    out = []
    for mode in ("run", "compile_execute"):
        if launch:
            r, extras = run_launch(files, launch, mode)
        else:
            r, _, extras = core.run_program(files, mode=mode, trace=True, cpu=10)
        out.append((mode, r, extras))
    return out


def check_project(files, exp_lines, exp_events, launch=None):
    """Run both ways and compare.  -> dict(runs, problems[], rejected, inconclusive, events_checked)"""
    res = {"runs": 0, "problems": [], "rejected": None, "inconclusive": None, "events_checked": 0}
    for mode, r, extras in run_modes(files, launch):
        if r.cls in ("wall_timeout", "spawn_error", "cpu_timeout"):
            res["inconclusive"] = "%s: %s" % (mode, r.cls)
            return res
        if rejected(r, extras):
            res["rejected"] = (r.out + r.err)[-500:]
            return res
        res["runs"] += 1
        ev = observed_events(extras)
        if ev is None:
            res["inconclusive"] = "%s: no trace file (H-MOD hook silent)" % mode
            return res
        res["events_checked"] += len(ev)
        dev = mm.compare(exp_lines, r.lines(), exp_events, ev, r.cls == "ok")
        if dev:
            res["problems"].append({"mode": mode, "deviation": dev[0], "detail": dev[1], "expected_lines": exp_lines,
                                    "observed_lines": r.lines(), "expected_events": [list(e) for e in exp_events],
                                    "observed_events": [list(e) for e in ev],
                                    "run": r.brief() if r.cls != "ok" else {"cls": r.cls}, "files": files,
                                    "launch": launch or "cwd"})
    return res


def work_spec(item):
    kind, ident, spec = item[:3]
    launch = item[3] if len(item) > 3 else None
    b = mm.build(spec, MODE)
    res = check_project(b["files"], b["lines"], b["events"], launch)
    res.update({"kind": kind, "id": ident, "stats": b["stats"], "hash": core.h(b["files"]), "n": spec["n"],
                "edges": len(spec["edges"]), "lines": len(b["lines"]), "sample": None})
    if not res["problems"] and kind in ("enum", "rand") and spec["n"] >= 3 and len(spec["edges"]) >= 3:
        res["sample"] = {"id": ident, "files": b["files"], "expected_lines": b["lines"],
                         "expected_events": [list(e) for e in b["events"]]}
    return res


def work_files(item):
    kind, ident, files, lines, events = item
    res = check_project(files, lines, events)
    res.update({"kind": kind, "id": ident, "stats": {}, "hash": core.h(files), "n": len(files), "edges": 0,
                "lines": len(lines), "sample": None})
    return res


def work_neg(item):
    _, ident, nkind, where, spec = item
    b = mm.build(spec)
    files = b["files"]
    res = {"kind": "neg", "id": ident, "neg_kind": nkind, "where": where, "runs": 0, "problems": [], "rejected": None,
           "inconclusive": None, "events_checked": 0, "stats": {}, "hash": core.h(files), "n": spec["n"],
           "edges": len(spec["edges"]), "lines": 0, "sample": None, "properly_rejected": 0}
    for mode in ("run", "compile"):
        r, _, extras = core.run_program(files, mode=mode, trace=True, cpu=10)
        if r.cls in ("wall_timeout", "spawn_error", "cpu_timeout"):
            res["inconclusive"] = "%s: %s" % (mode, r.cls)
            return res
        res["runs"] += 1
        text = r.out + r.err
        ran = SENTINEL in r.out or "init " in r.out
        diag = core.has_compile_diagnostics(text)
        if r.cls == "fail" and diag and not ran:
            if not any(t in text for t in mm.neg_expected_diagnostic(nkind)):
                res["inconclusive"] = "twin %s rejected for another reason: %s" % (ident, text[-300:])
                return res
            res["properly_rejected"] += 1
            continue
        if r.cls == "ok" or ran:
            what = "accepted"
        else:
            what = "no_diagnostic"
        res["problems"].append({"mode": mode, "deviation": what, "detail": "the compiler must reject this importer",
                                "expected_lines": ["<compile error, nothing runs>"], "observed_lines": r.lines()[:40],
                                "run": r.brief(), "files": files,
                                "violating_statements": spec["extra"]})
        break
    return res


def work(item):
    if item[0] == "neg":
        return work_neg(item)
    if item[0] in ("pin", "cat"):
        return work_files(item)
    return work_spec(item)


def build_items(ctx):
    items, seen = [], set()
    positions = ("pre", "post") if ctx.quick else ("pre", "mid", "post")
    n_enum = 0
    for ident, spec in mm.enumerate_space(3, positions):
        items.append(("enum", "/".join(ident), spec))
        n_enum += 1
    n_type = 0
    for ident, spec in mm.type_form_space(3):
        items.append(("enum", "/".join(ident), spec))
        n_type += 1
    n4 = 0
    if not ctx.quick:
        for ident, spec in mm.sampled_space(4, ("S", "T", "M"), 1, "c11-n4t"):
            items.append(("enum", "/".join(ident), spec))
            n4 += 1
        for ident, spec in mm.sampled_space(4, ("S", "N", "SN"), 2, "c11-n4"):
            items.append(("enum", "/".join(ident), spec))
            n4 += 1
    # seeded sample on 4 and 5 modules
    n_rand = 0
    for n, count in ((4, ctx.n(250, 1200)), (5, ctx.n(200, 2500))):
        for i in range(count):
            rng = ctx.rng("rand", n, i)
            edges, spec = mm.random_spec(rng, n)
            items.append(("rand", "random:n%d" % n, spec))
            n_rand += 1
    # negative twins
    n_neg = 0
    for ident, nkind, where, spec in mm.negative_twins(3):
        items.append(("neg", ident, nkind, where, spec))
        n_neg += 1
    # path spellings
    n_sp = 0
    for ident, cls, spec in mm.spelling_cases(full=not ctx.quick):
        items.append(("spell", "spelling:" + cls, spec))
        n_sp += 1
    for ident, launch, spec in mm.spelling_launch_family():
        items.append(("spell", ident, spec, launch))
        n_sp += 1
    items.append(("pin", "pin:importer_holds_captured_name", mm.PIN_C07_FILES, mm.PIN_C07_LINES, mm.PIN_C07_EVENTS))
    items.append(("cat", "cat:conditional_import", mm.PIN_COND_FILES, mm.PIN_COND_LINES, mm.PIN_COND_EVENTS))
    for ident, files, lines, events in mm.local_copy_cases():
        items.append(("cat", ident, files, lines, events))
    for ident, files, lines, events in mm.exported_class_cases():
        items.append(("cat", ident, files, lines, events))
    # drop duplicates (same files) among the enumerated projects
    uniq = []
    for it in items:
        if it[0] == "enum":
            key = core.h(mm.build(it[2])["files"])
            if key in seen:
                continue
            seen.add(key)
        uniq.append(it)
    counts = {"enumerated_specs": n_enum + n4 + n_type, "type_form_specs": n_type, "enumerated_distinct_projects": len(seen), "random_projects": n_rand,
              "negative_twins": n_neg, "spelling_cases": n_sp, "positions": list(positions)}
    return uniq, counts


def run(ctx):
    out = core.Outcome()
    items, counts = build_items(ctx)
    results = core.pmap(work, items, chunksize=4)
    agg = dict(counts)
    agg.update({"projects_compared": 0, "hmod_events_checked": 0, "rejected_projects": 0,
                "negative_twins_properly_rejected": 0, "negative_twin_kinds": {}, "model_events": {},
                "projects_by_modules": {}, "output_lines_compared": 0})
    rejected_examples = []
    for status, res in results:
        if status != "ok":
            out.inconclusive.append(str(res)[-400:])
            continue
        if res["inconclusive"]:
            out.inconclusive.append("%s: %s" % (res["id"], res["inconclusive"]))
            continue
        out.evaluations += res["runs"]
        if res["kind"] == "neg":
            agg["negative_twins_properly_rejected"] += 1 if res["properly_rejected"] == 2 else 0
            kk = res["neg_kind"]
            d = agg["negative_twin_kinds"].setdefault(kk, {"cases": 0, "rejected": 0})
            d["cases"] += 1
            d["rejected"] += 1 if res["properly_rejected"] == 2 else 0
            out.distinct.add(res["hash"])
            for prob in res["problems"]:
                sig = "C11:neg:%s:%s" % (res["neg_kind"], prob["deviation"])
                out.violations.append(core.Violation(sig, "importer (%s) %s: %s by the compiler, the program runs (%s)" % (
                    res["where"], res["neg_kind"], prob["deviation"], res["id"]), prob))
            continue
        if res["rejected"] and res["kind"] == "spell":
            agg["spelling_cases_rejected_by_parser"] = agg.get("spelling_cases_rejected_by_parser", 0) + 1
            continue
        if res["rejected"]:
            if res["kind"] in ("cat", "pin"):
                # hand-written legal projects: one that no longer compiles observes nothing
                out.inconclusive.append("catalogue project %s is rejected by the compiler: %s" % (res["id"], res["rejected"][-200:]))
            agg["rejected_projects"] += 1
            if len(rejected_examples) < 4:
                rejected_examples.append({"id": res["id"], "msg": res["rejected"][-300:]})
            continue
        agg["projects_compared"] += 1
        agg["hmod_events_checked"] += res["events_checked"]
        agg["output_lines_compared"] += res["lines"] * res["runs"]
        core.Outcome.merge_counts(out, agg["projects_by_modules"], str(res["n"]))
        for k, v in res["stats"].items():
            agg["model_events"][k] = agg["model_events"].get(k, 0) + v
        if res["edges"] >= 1 or res["kind"] in ("pin", "cat"):
            out.distinct.add(res["hash"])
        if res["sample"] and len(out.samples) < 2:
            out.samples.append(res["sample"])
        for prob in res["problems"]:
            sig = "C11:%s:%s" % (res["id"], prob["deviation"])
            out.violations.append(core.Violation(sig, "%s (%s): %s" % (res["id"], prob["mode"], prob["detail"][:200]),
                                                 prob))
    agg["rejected_examples"] = rejected_examples
    agg["avoidance_rules"] = {
        "importer_name_disjoint": "no importer holds a scalar name that a module's functions capture (C07 dynamic "
                                  "lookup): scalars are read through `m.x` only, every binding is prefixed with its "
                                  "module's name; pinned by pin:importer_holds_captured_name",
        "single_path_spelling": "outside the spelling dimension every import of a module uses the plain spelling "
                                "(a module reached as `m` and `./m` initialises twice); pinned by spelling:unnormalised_path",
        "no_parent_directory_imports": "`..` does not parse in an import path, so modules in sub/ import only from sub/",
        "no_function_local_imports": "`import` inside a function body compiles but dies at run time (`m is not in "
                                     "scope` at make_function); imports are placed at module level or in blocks"}
    agg["model_mode"] = MODE
    out.coverage.update(agg)
    out.exhaustive = True
    out.rule = ("enumerated part (exhaustive=true refers to it): every import DAG (up to isomorphism fixing the entry) on "
                "2..3 modules whose nodes are all reachable from the entry x import form per edge {import m | import "
                "names from m | both, either order} x placement of each import {%s} relative to the importer's own "
                "side-effecting statements x statement order of an importer's imports x directory placement (same "
                "directory / sub/), duplicates by source text removed%s; type-form family: every DAG x form per edge {import m | import type T from m | "
                "type-only then import m | import type T, names from m} x {all pre | all post} x orders; spelling family: "
                "ma imported as m / ./m by the entry and by a sibling, beside the entry or in sub/, either order, entry "
                "started from its directory / by relative path from the parent / by absolute path; "
                "negative twins: every DAG x every edge x 6 "
                "violation kinds; seeded part: random DAGs on 4 and 5 modules incl. imports in executed / non-executed "
                "blocks.  Each project = 2 evaluations (`run`; `compile`+`execute`), each compared on exact stdout "
                "and the H-MOD event sequence.  Non-trivial/distinct = distinct project text with >= 1 import edge."
                % ("|".join(counts["positions"]),
                   "" if ctx.quick else "; plus every DAG on 4 modules x form per edge {S,N,SN} with 2 case-id-seeded "
                   "placements each; path-spelling dimension {m, ./m, m.ms, ./m.ms, sub/../m}^2"))
    out.assumptions = ["shared state lives in a one-element list and in a scalar read through `m.x`; scalars imported by "
                       "name are snapshots by construction and are not asserted live",
                       "module identity of an H-MOD event = its path with `.mmm` stripped and normalised",
                       "dev-profile build; hooks compiled in (--cfg mscript_verif)"]
    total = agg["projects_compared"] + agg["rejected_projects"]
    if total and agg["rejected_projects"] > 0.02 * total:
        out.observed_nothing = "%d of %d projects rejected by the compiler: generator out of the language" % (
            agg["rejected_projects"], total)
    if agg["hmod_events_checked"] == 0:
        out.observed_nothing = "no H-MOD events observed"
    return out


def replay(path):
    with open(os.path.join(path, "case.json")) as f:
        case = json.load(f)
    w = case["witness"]
    files = {}
    root = os.path.join(path, "files")
    for dp, _, fns in os.walk(root):
        for fn in fns:
            p = os.path.join(dp, fn)
            files[os.path.relpath(p, root)] = open(p).read()
    print("signature:", case["signature"])
    if ":neg:" in case["signature"]:
        bad = 0
        for mode in ("run", "compile"):
            r, _, _ = core.run_program(files, mode=mode, cpu=10)
            ran = SENTINEL in r.out or "init " in r.out
            okk = core.compile_rejected(r) and not ran
            print(mode, "->", r.cls, "rejected" if okk else "ACCEPTED / ran: %s" % r.lines()[:12])
            bad += 0 if okk else 1
        print("AGREES" if not bad else "DIFFERS")
        return 0 if not bad else 1
    exp_events = [tuple(e) for e in w["expected_events"]]
    bad = 0
    for mode, r, extras in run_modes(files, None if w.get("launch", "cwd") == "cwd" else w["launch"]):
        ev = observed_events(extras)
        dev = mm.compare(w["expected_lines"], r.lines(), exp_events, ev, r.cls == "ok")
        print(mode, "->", r.cls, dev or "agrees")
        if dev:
            print("  expected:", w["expected_lines"])
            print("  observed:", r.lines())
            print("  expected events:", exp_events)
            print("  observed events:", ev)
            bad += 1
    print("AGREES" if not bad else "DIFFERS")
    return 0 if not bad else 1
