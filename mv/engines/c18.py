"""C18 — human-readable bytecode round-trips: raw-text -> transpile -> execute equals run.

Differential twins (mv/models/twin.py).  Pipeline A: `mscript run x.ms -q`; pipeline B: `mscript compile x.ms
--output-format raw-text --quick`, rename `x.mmm` -> `x.transpiled.mmm`, `mscript transpile x.transpiled.mmm`,
`mscript execute x.mmm`; H-DUMP on `run` and `execute`.  Same oracle as C04 (stdout, success/failure, per
function opcode sequence + argument lists).  A failing `transpile` is a failure of pipeline B.

Workloads: (a) the single-module programs of the corpus, (b) strings of length 0-4 over the format-special
alphabet in three roles (batched, bisected), (c) generated control-flow programs, (d) the opcode table,
exhaustively: every instruction name x 4 argument forms as a one-instruction text function -> byte written by
the transpiler == table index, arguments loaded == arguments written; (e) histories (several raw-text -> transpile
rounds in ONE directory with sources of different sizes: stale output files) and (f) large files with multi-byte
characters across every multiple of 4096 of the bytecode file — both as in C04."""
import json
import os

from .. import core, corpus
from ..models import twin
from .c04 import cf_programs, random_histories, sig_of

PROP = "C18"


def run(ctx):
    out = core.Outcome()
    avoid = twin.known_kinds(ctx, PROP)
    progs = list(corpus.all_programs())      # multi-module ones are recognised by their dump and skipped
    gen = cf_programs(ctx, ctx.n(120, 2000))
    progs += gen
    dup = twin.duplabel_cases(ctx.rng("duplabel"), ctx.n(20, 200)) + twin.first_instruction_cases() + twin.foreign_escape_cases()
    progs += dup
    items = [(PROP, name, files, entry, True, avoid) for name, files, entry in progs]
    cov = twin.collect_programs(PROP, out, items, sig_of)
    scov, chosen = twin.collect_strings(PROP, ctx, out)
    cov.update(scov)
    cov.update(twin.collect_opcodes(PROP, out))
    cov.update(twin.collect_histories(PROP, out, random_histories(PROP, gen, ctx.n(15, 300))))
    cov.update(twin.collect_large(PROP, out, ctx.quick))
    out.coverage.update(cov)
    out.coverage["avoidance_rules"] = (
        ["programs whose emitted instruction arguments contain a character of a class listed in known_findings.json "
         "(%s) are not compared (their deviation is the listed finding)" % ", ".join(avoid)] if avoid else [])
    out.coverage["workload_sizes"] = {"corpus": len(progs) - len(gen) - len(dup), "repeated_label_programs": len(dup), "generated_cf": len(gen),
                                      "string_values": len(chosen)}
    pick = [(i, v, twin.has_raw_form(v)) for i, v in chosen[617:620]]
    out.samples = [{"kind": "string batch program (role print, 3 of ~200 literals)", "values": [v for _, v, _ in pick],
                    "source": twin.string_program("print", pick)[0]},
                   {"kind": "opcode case", "text_file": "function __module__\n\tmake_map \"p q\" \"z\"\nend\n",
                    "expected_binary": "f __module__\\0<byte 60> \"p q\" z\\0e\\0 (or any quoting the loader reads back as ['p q', 'z'])"},
                   {"kind": "generated program", "name": gen[0][0], "source": gen[0][1]["main.ms"][:600]}]
    out.rule = ("each single-module program is executed by `run` and by compile(raw-text) -> transpile -> execute (fresh "
                "directories, H-DUMP on); stdout, exit class and every loaded function's instruction stream are "
                "compared. Programs: examples + programs embedded in the test sources that load one module only "
                "(<= 0.5 s CPU), seeded control-flow programs, programs in which one function label is emitted several "
                "times (same-named local classes in 2-4 functions / blocks, a class called __fnN; which declaration "
                "runs: last, first, middle, all). Strings: %s values of length <= 4 over {\" \\ space TAB "
                "LF CR n r t é} that a literal can denote, escaped + raw rendering, as print operand, map key and "
                "assert-== operand; batches of 200 bisected to single literals (one evaluation = one (value, rendering, role) case decided, up to 200 share one pair of executions). Opcode table: all names of BIN_TO_REPR x "
                "{no argument, quoted, bare, quoted with space}. Distinct non-trivial = distinct program with >= 5 "
                "instructions compared, distinct (role, string) with >= 1 character other than n/r/t, distinct "
                "(instruction name, argument form)."
                % ("all 10 000" if not ctx.quick else "all 1 000 of length <= 3 and a seeded sample of 400 of length 4 among the"))
    out.assumptions = [
        "both pipelines run in separate fresh directories with identical sources and the same relative entry path",
        "failure equivalence = same exit class and same classify_failure class; a `transpile` that stops with an error "
        "is a failure of pipeline B (the program was accepted by the compiler)",
        "a program whose own `run` stdout varies between executions is compared on exit class and instruction streams only",
        "programs the compiler rejects and multi-module programs are outside the domain and only counted "
        "(`--output-format raw-text` writes imported modules in binary form anyway)",
        "string values ending in a backslash have no source literal and are not probed (see C04)",
        "`nop` is refused by the transpiler with an explicit 'deprecated' diagnostic (bytecode_dev_transpiler::"
        "is_instruction_deprecated); the compiler never emits it and opcode 0 cannot be framed in the NUL-separated "
        "binary form: an explicit refusal of a name on that list is accepted, a silent mis-mapping is not",
        "H-DUMP is faithful (additive observation code)"]
    if out.evaluations == 0:
        out.observed_nothing = "no program could be compared"
    return out


def replay(path):
    with open(os.path.join(path, "case.json")) as f:
        case = json.load(f)
    w = case["witness"]
    if "history" in w:
        res = twin.replay_history(PROP, w)
        print(json.dumps({k: v for k, v in res.items() if k != "witness"}, indent=1, default=str, ensure_ascii=False))
        return 1 if (res["devs"] or res["status"] != "compared") else 0
    if "opcode_item" in w:
        res = twin.work_opcode(tuple(w["opcode_item"]))
        print(json.dumps(res, indent=1, default=str, ensure_ascii=False))
        return 1 if res["problem"] else 0
    files = twin.read_files(os.path.join(path, "files"))
    status, devs, a, b = twin.compare(PROP, files, w.get("entry", "main.ms"), keep_artefacts=True)
    print(json.dumps({"signature": case["signature"], "status": status, "deviations": devs, "run": a.brief(),
                      "pipeline_b": b.brief()}, indent=1, default=str, ensure_ascii=False))
    return 1 if (devs or status != "compared") else 0
