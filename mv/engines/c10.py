"""C10 — a `const` name (likewise a class name, an imported module, the members it exports) cannot be
written by any syntactic form, from any scope in which it is visible.

Workload: the EXHAUSTIVE product  declaration context x write form x write context, filtered by the
applicability tables below (plain data, reviewed against /repo/compiler/src/grammar.pest).  Every case
is one program (plus helper modules); oracle = fault-catalogue shape:

  * the program must be REJECTED by `mscript run`: exit class `fail`, a diagnostic with a source
    position (` --> file:line:col`) on stdout, and the sentinel `print "@@RUN@@"` (first statement)
    must not appear;
  * non-vacuity: (a) a diagnostic must sit on the line of the write (else the case is counted as
    `rejected_elsewhere`, a harness problem, never a violation); (b) for `const` variables the TWIN
    program (same text, declaration without `const`) is run as well and must behave as the table
    TWIN_ACCEPTED says (accepted for the genuine write forms, rejected for forms that can never
    rebind an existing name: unpacking, re-declaration, shadowing);
  * controls: per (declaration, context) the program WITHOUT the write must be accepted and print the
    initializer (scalar constants: "the value observed is always the initializer").

Names imported with `import x from m` are a special case: upstream's own test
`not_import_const_bypass` asserts that `import favorite from book; favorite = "..."` is ACCEPTED and leaves
`book.favorite` unchanged — the imported name is a local copy.  For these declaration contexts the oracle
therefore accepts both outcomes of the compiler and asserts what the statement guarantees under either
reading: the exporter's scalar member, observed as `mx.<name>` after the write, still shows the initializer.

Accepted-program family `shadowed_local` (run-time half of the statement: "for constants of number, boolean or
string type the value observed is always the initializer"): a closure / method reads an outer const, declares a
local of the same name, updates the local with `op=` / `?=` / as from-loop counter; the const must still show
its initializer afterwards and the local the updated value.  Signature C10:shadowed_local:<decl>/<form>/<ctx>:<dev>.

Where a program is (wrongly) accepted the constant is printed after the write (line after `@@VAL@@`),
so the witness shows whether it changed.  Signature: C10:<decl>/<form>/<ctx>:<deviation>."""
import json
import os
import re

from .. import core

RUN = "@@RUN@@"
VAL = "@@VAL@@"

# ----------------------------------------------------------------------------- value kinds
# init/new: initializer and replacement value; shown: how `print` shows the initializer;
# ops: op-assign operator -> right operand (each changes the value); show: expression printed.
OPS = ["add", "sub", "mul", "div", "mod"]
OPSYM = {"add": "+=", "sub": "-=", "mul": "*=", "div": "/=", "mod": "%="}

KINDS = {
    "int": dict(type="int", init="5", shown="5", new="6", opt="int?",
                ops={"add": "1", "sub": "1", "mul": "2", "div": "2", "mod": "3"},
                cmp="> 1000", loop="from 0 to 3, %s { }", frm="from 0 to (%s) { }",
                unpack="[6, 7]"),
    "optint": dict(type="int?", init="5", shown="5", new="6", opt="int?",
                   ops={"add": "1", "sub": "1", "mul": "2", "div": "2", "mod": "3"},
                   cmp="> 1000", loop=None, frm="from 0 to (%s) { }", unpack=None),
    "float": dict(type="float", init="2.5", shown="2.5", new="0.5", opt="float?",
                  ops={"add": "1.5", "sub": "0.5", "mul": "2.0", "div": "2.0", "mod": "2.0"},
                  cmp="> 1000.0", loop="from 0.0 to 2.0 step 0.5, %s { }",
                  frm="from 0.0 to (%s) step 0.5 { }", unpack="[0.5, 1.5]"),
    "str": dict(type="str", init='"hi"', shown="hi", new='"zz"', opt="str?",
                ops={"add": '"x"', "mul": "2"}, cmp='== "q"', loop=None, frm=None, unpack='["zz", "yy"]'),
    "class": dict(shown="3", ops={}),
    "bool": dict(type="bool", init="true", shown="true", new="false", opt="bool?", ops={}, cmp=None,
                 loop=None, frm=None, unpack="[false, false]"),
    # growable list: whole-name forms + element forms (element kind int: 5 op 3 always changes)
    "list": dict(type="[int...]", init="[5, 2]", shown="[5, 2]", new="other9", opt="[int...]?", ops={},
                 elem_ops={"add": "3", "sub": "3", "mul": "3", "div": "3", "mod": "3"}, cmp=None,
                 loop=None, frm=None, unpack=None),
    # untyped literal with two elements = fixed-shape list, which MUST be const (no twin)
    "fixedlist": dict(type=None, init="[5, 2]", shown="[5, 2]", new=None, opt=None, ops={},
                      elem_ops={"add": "3", "sub": "3", "mul": "3", "div": "3", "mod": "3"}, cmp=None,
                      loop=None, frm=None, unpack=None),
    # object of class K9 { f: int }: printed through its field
    "object": dict(type="K9", init="K9(5)", shown="5", new="K9(6)", opt="K9?", ops={},
                   field_ops={"add": "3", "sub": "3", "mul": "3", "div": "3", "mod": "3"}, cmp=None,
                   loop=None, frm=None, unpack=None),
    # list of lists: element writes two index steps below the const name
    "list2": dict(type="[[int...]...]", init="[[5, 2], [1]]", shown="[[5, 2], [1]]", new=None, opt=None, ops={},
                  elem_ops={"add": "3", "sub": "3", "mul": "3", "div": "3", "mod": "3"}, cmp=None,
                  loop=None, frm=None, unpack=None),
    # object of class K8 { items: [int...], inner: K9 }: writes two path steps below the const name
    "object2": dict(type="K8", init="K8()", shown="505", new=None, opt=None, ops={},
                    field_ops={"add": "3", "sub": "3", "mul": "3", "div": "3", "mod": "3"}, cmp=None,
                    loop=None, frm=None, unpack=None, show="(%s.items)[0] * 100 + %s.inner.f"),
}

CLASS_K8 = ["class K8 {", "  items: [int...]", "  inner: K9", "  constructor(self) {", "    self.items = [5, 2]",
            "    self.inner = K9(5)", "  }", "}"]
CLASS_K9 = ["class K9 {", "  f: int", "  constructor(self, f: int) { self.f = f }", "}"]

# ----------------------------------------------------------------------------- forms
WHOLE_STMT = ["assign", "typed_assign", "unpack", "unpack_const", "redeclare_const", "redeclare_const_typed",
              "shadow_class", "shadow_import_module", "shadow_import_name", "loop_counter"]
OPASSIGN = ["opassign_" + o for o in OPS]
INDEX_OP = ["index_opassign_" + o for o in OPS]
FIELD_OP = ["field_opassign_" + o for o in OPS]
INDEX2_OP = ["index2_opassign_" + o for o in OPS]               # cv[0][0] op= v
FIELD2_OP = ["field2_opassign_" + o for o in OPS]               # cv.inner.f op= v
PAREN_FIELD_INDEX_OP = ["parenfieldindex_opassign_" + o for o in OPS]   # (cv.items)[0] op= v
PAREN_FIELD_FIELD_OP = ["parenfieldfield_opassign_" + o for o in OPS]   # (cv.inner).f op= v
DEEP_OP = INDEX2_OP + FIELD2_OP + PAREN_FIELD_INDEX_OP + PAREN_FIELD_FIELD_OP
EXPR_FORMS = OPASSIGN + ["unwrap_assign"] + INDEX_OP + FIELD_OP + DEEP_OP   # usable inside a loop header
REACH_OUT = ["modify"] + EXPR_FORMS + ["index_assign", "field_assign"]   # reach a captured variable
REACH_OUT += ["index2_assign", "field2_assign", "shadow_modify"]
ALL_FORMS = WHOLE_STMT + ["modify", "shadow_modify", "index_assign", "field_assign", "index2_assign", "field2_assign"] + EXPR_FORMS

# ----------------------------------------------------------------------------- contexts
CTXS = ["same_scope", "nested_block", "nested_function", "nested_function2", "method", "while_header",
        "from_header", "while_body", "from_body"]
CLOSURE_CTXS = ["nested_function", "nested_function2", "method"]

# ----------------------------------------------------------------------------- declaration contexts
# how: const (a `const` variable; has a non-const twin), const_notwin, class, module, member, imported
DECLS = []


def _d(id, kind, place, how, **kw):
    d = dict(id=id, kind=kind, place=place, how=how, typed=False, export=False, name="cv")
    d.update(kw)
    DECLS.append(d)


for _place in ("module", "function", "block"):
    _d("const_untyped@" + _place, "int", _place, "const")
    _d("const_typed@" + _place, "int", _place, "const", typed=True)
    _d("const_list@" + _place, "list", _place, "const", typed=True)
    _d("const_object@" + _place, "object", _place, "const")
    _d("const_list2@" + _place, "list2", _place, "const", typed=True)
    _d("const_object2@" + _place, "object2", _place, "const")
    # declared by unpacking: `const [cv, cw9] = [5, 7]`
    _d("const_unpacked@" + _place, "int", _place, "const", unpacked=True)
_d("const_unpacked_str@module", "str", "module", "const", unpacked=True)
# the name is an ordinary variable first and is then declared `const` (same type) in the same scope: whether the
# re-declaration itself is refused (pinned tree) or accepted, nothing may write the name afterwards
for _place in ("module", "function", "block"):
    _d("const_over_variable@" + _place, "int", _place, "const_notwin", predecl=True)
_d("const_over_variable_str@module", "str", "module", "const_notwin", predecl=True)
_d("export_const@module", "int", "module", "const", typed=True, export=True)
_d("const_optint@module", "optint", "module", "const", typed=True)
_d("const_optint@function", "optint", "function", "const", typed=True)
_d("const_float@module", "float", "module", "const")
_d("const_str@module", "str", "module", "const")
_d("const_str_typed@function", "str", "function", "const", typed=True)
_d("const_bool@module", "bool", "module", "const")
_d("const_fixed_list@module", "fixedlist", "module", "const_notwin")
_d("const_fixed_list@block", "fixedlist", "block", "const_notwin")
_d("class_name@module", "class", "module", "class", name="Cv")
_d("class_name@function", "class", "function", "class", name="Cv")
_d("module_name@other_module", "module", "module", "module", name="mx")
# members of module mx (see MX_SOURCE), written through `mx.<member>` from the importer
_d("member_const@other_module", "int", "module", "member", name="mx.ec")
_d("member_var@other_module", "int", "module", "member", name="mx.ev")
_d("member_const_str@other_module", "str", "module", "member", name="mx.es")
_d("member_const_list@other_module", "list", "module", "member", name="mx.el", whole_only=True)
_d("member_const_object@other_module", "object", "module", "member", name="mx.eo")
# the same members reached through an ALIAS of the module (`al9 = mx`): the alias is an ordinary variable, the
# members still belong to the module
_d("member_const_via_alias@other_module", "int", "module", "member", name="al9.ec", alias=True)
_d("member_var_via_alias@other_module", "int", "module", "member", name="al9.ev", alias=True)
_d("member_const_str_via_alias@other_module", "str", "module", "member", name="al9.es", alias=True)
_d("member_const_object_via_alias@other_module", "object", "module", "member", name="al9.eo", alias=True)
# names imported with `import <name> from mx`
_d("imported_const@other_module", "int", "module", "imported", name="ec")
_d("imported_var@other_module", "int", "module", "imported", name="ev")
_d("imported_const_list@other_module", "list", "module", "imported", name="el")
# (an object imported by name is not usable here: `import eo from mx` then `eo.f` is rejected with "this property
#  does not exist on `K9`" — a side observation outside C10; object members are covered through `mx.eo.f`)
# a class imported by name: HEAD rejects every rebinding of it (unlike VALUE names imported by name, which upstream's
# test not_import_const_bypass declares to be local copies), so rejection is asserted
_d("imported_class_name@other_module", "class", "module", "imported_class", name="K9")

MX_SOURCE = "\n".join([
    "export class K9 {", "  f: int", "  constructor(self, f: int) { self.f = f }", "}",
    "export const ec: int = 5",
    "export ev: int = 5",
    'export const es: str = "hi"',
    "export const el: [int...] = [5, 2]",
    "export const eo: K9 = K9(5)",
]) + "\n"

# ----------------------------------------------------------------------------- applicability (data)
# 1. kind -> forms that are meaningful for a target of that kind (the write would be well-typed and
#    grammatical if the target were an ordinary variable).
SCALAR_WHOLE = ["assign", "typed_assign", "unwrap_assign", "modify", "shadow_modify", "unpack", "unpack_const", "redeclare_const",
                "redeclare_const_typed", "shadow_class", "shadow_import_module", "shadow_import_name"]
KIND_FORMS = {
    "int": SCALAR_WHOLE + OPASSIGN + ["loop_counter"],
    "optint": [f for f in SCALAR_WHOLE if not f.startswith("unpack")] + OPASSIGN,  # no int? literal list to unpack
    "float": SCALAR_WHOLE + OPASSIGN + ["loop_counter"],
    "str": SCALAR_WHOLE + ["opassign_add", "opassign_mul"],            # str has only + and *
    "bool": SCALAR_WHOLE,                                              # no arithmetic on bool
    "list": ["assign", "typed_assign", "unwrap_assign", "modify", "redeclare_const", "redeclare_const_typed",
             "shadow_class", "index_assign"] + INDEX_OP,
    "fixedlist": ["index_assign"] + INDEX_OP + ["redeclare_const", "shadow_class"],
    "object": ["assign", "typed_assign", "unwrap_assign", "modify", "redeclare_const", "redeclare_const_typed",
               "shadow_class", "field_assign"] + FIELD_OP,
    "list2": ["index2_assign"] + INDEX2_OP,
    "object2": ["field2_assign"] + FIELD2_OP + PAREN_FIELD_INDEX_OP + PAREN_FIELD_FIELD_OP,
    # a class / module name has no value of a storable type: only whole-name rebinding forms
    "class": ["assign", "typed_assign", "modify", "unpack", "unpack_const", "redeclare_const", "redeclare_const_typed",
              "shadow_class", "shadow_import_module", "shadow_import_name"],
    "module": ["assign", "typed_assign", "modify", "unpack", "unpack_const", "redeclare_const",
               "redeclare_const_typed", "shadow_class", "shadow_import_module", "shadow_import_name"],
}
# 2. members reached as `mx.<name>`: the grammar's reassignment path is `primary (list_index | dot_chain)`,
#    one postfix only, so `mx.el[0] = ..` does not parse; what exists is `mx.x = ..`, `mx.x op= ..`,
#    `mx.eo.f = ..` and `mx.eo.f op= ..` (one dot chain).  `?=`/modify/loop counter/unpack need a bare name.
MEMBER_FORMS = {
    "int": ["field_assign"] + FIELD_OP,
    "str": ["field_assign", "field_opassign_add", "field_opassign_mul"],
    "list": ["field_assign"],
    "object": ["field_assign", "field_of_member_assign"] + ["field_of_member_opassign_" + o for o in OPS],
}
# 3. (form, ctx) pairs that are dropped, with the reason.
def form_ctx_excluded(form, ctx):
    if ctx in ("while_header", "from_header") and form not in EXPR_FORMS \
            and not form.startswith("field_of_member_opassign"):
        return "statement form: cannot be written inside a loop header expression"
    if ctx in CLOSURE_CTXS and form not in REACH_OUT and not form.startswith("field_of_member"):
        return "inside a nested function this form creates a new local (C07); it is not a write to the outer name"
    if form == "shadow_modify" and ctx not in CLOSURE_CTXS:
        return "`modify` addresses a variable captured from an enclosing function; nothing is captured here"
    if form == "modify" and ctx not in CLOSURE_CTXS:
        return "`modify` addresses a variable captured from an enclosing function; nothing is captured here"
    if form == "shadow_class" and ctx != "same_scope":
        return ("a class declared in an inner block is a new block-scoped binding that shadows (observed on the "
                "non-const twin: accepted, outer value unchanged); it does not rebind the outer name")
    if form == "unwrap_assign" and ctx == "from_header":
        return "`?=` yields bool, a from-loop bound is numeric"
    return None


# 4. (decl, ctx) pairs that are dropped.
def decl_ctx_excluded(decl, ctx):
    if ctx == "method" and decl["place"] == "block":
        return "a class declared inside a block to reach a block-local const: covered by place=function"
    return None


# 5. (decl, form, ctx): a from-loop bound must be numeric, a while condition needs a comparable result
def kind_form_ctx_excluded(decl, form, ctx):
    if ctx in ("while_header", "from_header"):
        _st, _expr, cond, frm = write_text(decl, form)
        if ctx == "from_header" and frm is None:
            return "the value of this op-assign is not numeric: it cannot be a from-loop bound"
        if ctx == "while_header" and cond is None:
            return "the value of this expression cannot form a while condition"
    return None


# non-const twin expectation: True = the twin must be accepted (the form really rebinds / mutates an
# ordinary variable), False = the twin is rejected as well (the form can never touch an existing name).
TWIN_ACCEPTED = {f: True for f in ALL_FORMS}
for _f in ("unpack", "unpack_const", "redeclare_const", "redeclare_const_typed", "shadow_class",
           "shadow_import_module", "shadow_import_name"):
    TWIN_ACCEPTED[_f] = False


# ----------------------------------------------------------------------------- program construction
def base_form(form):
    for p in ("field_of_member_opassign_", "parenfieldindex_opassign_", "parenfieldfield_opassign_", "index2_opassign_",
              "field2_opassign_", "index_opassign_", "field_opassign_", "opassign_"):
        if form.startswith(p):
            return p[:-1], form[len(p):]
    return form, None


def write_text(decl, form):
    """(statement lines, expression text or None, condition text or None, from-header text or None)."""
    kind, name = decl["kind"], decl["name"]
    k = KINDS.get(kind, {})
    bf, op = base_form(form)
    bare = name.split(".")[-1]
    new = k.get("new") or "6"
    ty = k.get("type") or "int"
    if kind == "module":
        new, ty = "6", "int"            # no value of a module's type can be written down
    if kind == "class":
        # a value the class name COULD hold if it were an ordinary variable: a function of the constructor's type
        # (with `6` a compiler that lost the const flag would still reject, for a type mismatch)
        fld = "f" if bare == "K9" else "q"
        new = "fn(%s: int) -> %s { return real9(%s + 1) }" % (fld, bare, fld)
        ty = "fn(int) -> %s" % bare
    expr = None
    if bf == "assign":
        st = ["%s = %s" % (name, new)]
    elif bf == "typed_assign":
        st = ["%s: %s = %s" % (name, ty, new)]
    elif bf == "opassign":
        expr = "%s %s %s" % (name, OPSYM[op], k["ops"][op])
        st = [expr]
    elif bf == "unwrap_assign":
        expr = "%s ?= d9" % name
        st = ["t9 = " + expr]
    elif bf == "modify":
        st = ["modify %s = %s" % (name, new)]
    elif bf == "shadow_modify":
        # a same-named local first (legal shadowing), then `modify` in the same block: `modify` still means the
        # captured outer name
        st = ["%s = %s" % (name, new), "modify %s = %s" % (name, new)]
    elif bf == "index_assign":
        st = ["%s[0] = 9" % name]
    elif bf == "index_opassign":
        expr = "%s[0] %s %s" % (name, OPSYM[op], k["elem_ops"][op])
        st = [expr]
    elif bf == "field_assign":
        if decl["how"] == "member":
            st = ["%s = %s" % (name, new)]              # mx.ec = 6
        else:
            st = ["%s.f = 6" % name]
    elif bf == "field_opassign":
        if decl["how"] == "member":
            expr = "%s %s %s" % (name, OPSYM[op], k["ops"][op])
        else:
            expr = "%s.f %s %s" % (name, OPSYM[op], k["field_ops"][op])
        st = [expr]
    elif bf == "field_of_member_assign":
        st = ["%s.f = 6" % name]                         # mx.eo.f = 6
    elif bf == "field_of_member_opassign":
        expr = "%s.f %s %s" % (name, OPSYM[op], KINDS["object"]["field_ops"][op])
        st = [expr]
    elif bf == "index2_assign":
        st = ["%s[0][0] = 9" % name]
    elif bf == "index2_opassign":
        expr = "%s[0][0] %s %s" % (name, OPSYM[op], k["elem_ops"][op])
        st = [expr]
    elif bf == "field2_assign":
        st = ["%s.inner.f = 6" % name]
    elif bf == "field2_opassign":
        expr = "%s.inner.f %s %s" % (name, OPSYM[op], k["field_ops"][op])
        st = [expr]
    elif bf == "parenfieldindex_opassign":
        expr = "(%s.items)[0] %s %s" % (name, OPSYM[op], k["field_ops"][op])
        st = [expr]
    elif bf == "parenfieldfield_opassign":
        expr = "(%s.inner).f %s %s" % (name, OPSYM[op], k["field_ops"][op])
        st = [expr]
    elif bf == "loop_counter":
        st = [k["loop"] % name]
    elif bf == "unpack":
        st = ["[%s, u9] = %s" % (name, k.get("unpack") or "[6, 7]")]
    elif bf == "unpack_const":
        st = ["const [%s, u9] = %s" % (name, k.get("unpack") or "[6, 7]")]
    elif bf == "redeclare_const":
        st = ["const %s = %s" % (name, new if kind != "fixedlist" else "[8, 9]")]
    elif bf == "redeclare_const_typed":
        st = ["const %s: %s = %s" % (name, ty, new)]
    elif bf == "shadow_class":
        st = ["class %s { }" % name]
    elif bf == "shadow_import_module":
        st = ["import sub/%s" % name]
    elif bf == "shadow_import_name":
        st = ["import %s from shadow9" % name]
    else:
        raise ValueError(form)
    cond = frm = None
    if expr is not None:
        if bf == "unwrap_assign":
            cond = "(%s)" % expr
        else:
            ek = "int" if bf in ("index_opassign", "field_of_member_opassign", "index2_opassign", "field2_opassign",
                                 "parenfieldindex_opassign", "parenfieldfield_opassign") or (
                bf == "field_opassign" and decl["how"] != "member") else kind
            ekd = KINDS[ek]
            if ekd.get("cmp"):
                cond = "(%s) %s" % (expr, ekd["cmp"])
            if ekd.get("frm"):
                frm = ekd["frm"] % expr
    return st, expr, cond, frm


def wrap_ctx(ctx, st, cond, frm, ind):
    """Lines placing the write into the context (relative to the declaration's scope)."""
    p = "  " * ind
    if ctx == "same_scope":
        return [p + s for s in st], 0
    if ctx == "nested_block":
        return [p + "if true {"] + [p + "  " + s for s in st] + [p + "}"], 1
    if ctx == "nested_function":
        return [p + "g9 = fn() {"] + [p + "  " + s for s in st] + [p + "}", p + "g9()"], 1
    if ctx == "nested_function2":
        return ([p + "g9 = fn() {", p + "  h9 = fn() {"] + [p + "    " + s for s in st] +
                [p + "  }", p + "  h9()", p + "}", p + "g9()"]), 2
    if ctx == "method":
        return ([p + "class M9 {", p + "  fn go(self) -> int {"] + [p + "    " + s for s in st] +
                [p + "    return 0", p + "  }", p + "}", p + "mo9 = M9()", p + "mo9.go()"]), 2
    if ctx == "while_body":
        return [p + "while true {"] + [p + "  " + s for s in st] + [p + "  break", p + "}"], 1
    if ctx == "from_body":
        return [p + "from 0 to 1 {"] + [p + "  " + s for s in st] + [p + "}"], 1
    if ctx == "while_header":
        return [p + "while %s {" % cond, p + "  break", p + "}"], 0
    if ctx == "from_header":
        return [p + frm + ""], 0
    raise ValueError(ctx)


def build(decl, form, ctx, const=True, write=True):
    """files, line number (1-based) of the write in main.ms (None without write)."""
    kind, name, how = decl["kind"], decl["name"], decl["how"]
    k = KINDS.get(kind, {})
    files = {}
    top = ['print "%s"' % RUN]
    body = []          # lines inside the placement
    show = name + (".f" if kind == "object" else "")
    if kind == "module":
        show = None
    if kind == "class":
        show = "(%s(3)).%s" % (name, "f" if name == "K9" else "q")      # 3 while the name is the real class
    if k.get("show"):
        show = k["show"] % (name, name)
    need_k9 = kind in ("object", "object2") and how in ("const",)
    if how in ("member", "module"):
        files["mx.ms"] = MX_SOURCE
        top.append("import mx")
        if decl.get("alias"):
            top.append("al9 = mx")
            show = "mx." + name.split(".", 1)[1] + (".f" if kind == "object" else "")
    elif how == "imported_class":
        files["mx.ms"] = MX_SOURCE
        top.append("import %s from mx" % name)
    elif how == "imported":
        files["mx.ms"] = MX_SOURCE
        top.append("import mx")
        show = "mx." + name           # the exporter's member, not the importer's copy
        if kind == "object":
            top.append("import K9, %s from mx" % name)
        else:
            top.append("import %s from mx" % name)
    if need_k9:
        top += CLASS_K9
    if kind == "object2":
        top += CLASS_K8
    bf, _op = base_form(form) if form else (None, None)
    if bf == "shadow_import_module":
        files["sub/%s.ms" % name] = "export zz9: int = 1\n"
    if bf == "shadow_import_name":
        files["shadow9.ms"] = "export %s: int = 1\n" % name
    # helpers live next to the declaration (so closures capture them exactly like the target)
    if kind == "list":
        body.append("other9: [int...] = [7]")
    if bf == "unwrap_assign":
        body.append("d9: %s = %s" % (k["opt"], k["new"]))
    # declaration
    if how in ("const", "const_notwin"):
        flag = ("export " if decl["export"] else "") + ("const " if const else "")
        if decl.get("predecl"):
            body.append("%s = %s" % (name, k["init"]))
        if decl.get("unpacked"):
            body.append("%s[%s, cw9] = [%s, %s]" % (flag, name, k["init"], k["new"]))
        elif decl["typed"]:
            body.append("%s%s: %s = %s" % (flag, name, k["type"], k["init"]))
        else:
            body.append("%s%s = %s" % (flag, name, k["init"]))
    elif how == "class":
        body += ["class %s {" % name, "  q: int", "  constructor(self, q: int) { self.q = q }", "}", "real9 = %s" % name]
    elif how == "imported_class":
        body.append("real9 = %s" % name)
    ind = 0 if decl["place"] == "module" else 1
    wline = None
    if write:
        st, expr, cond, frm = write_text(decl, form)
        wl, off = wrap_ctx(ctx, st, cond, frm, 0)
        # index of the write statement inside wl: first line containing the statement text
        key = (st[-1] if bf == "shadow_modify" else st[0]) if ctx not in ("while_header", "from_header") else (
            cond if ctx == "while_header" else frm)
        widx = next(i for i, l in enumerate(wl) if key in l)
        wmark = len(body) + widx
        body += wl
    else:
        wl, _ = wrap_ctx(ctx, ["noop9 = 1"], "false", "from 0 to 1 { }", 0)
        body += wl
    body.append('print "%s"' % VAL)
    if show:
        body.append("print " + show)
    else:
        body.append('print "-"')
    lines = list(top)
    if decl["place"] == "module":
        start = len(lines)
        lines += body
    elif decl["place"] == "function":
        lines.append("f9 = fn() {")
        start = len(lines)
        lines += ["  " + b for b in body]
        lines += ["}", "f9()"]
    else:
        lines.append("if true {")
        start = len(lines)
        lines += ["  " + b for b in body]
        lines.append("}")
    if write:
        wline = start + wmark + 1
    files["main.ms"] = "\n".join(lines) + "\n"
    return files, wline


# ----------------------------------------------------------------------------- the product
def product():
    cases, dropped = [], []
    for decl in DECLS:
        if decl["how"] == "member":
            forms = MEMBER_FORMS[decl["kind"]]
        else:
            forms = KIND_FORMS[decl["kind"]]
        for form in ALL_FORMS + ["field_of_member_assign"] + ["field_of_member_opassign_" + o for o in OPS]:
            if form not in forms:
                continue
            for ctx in CTXS:
                why = form_ctx_excluded(form, ctx) or decl_ctx_excluded(decl, ctx) or \
                    kind_form_ctx_excluded(decl, form, ctx)
                if why:
                    dropped.append((decl["id"], form, ctx, why))
                    continue
                cases.append((decl["id"], form, ctx))
    return cases, dropped


DECL_BY_ID = {d["id"]: d for d in DECLS}

# signature granularity: operator variants and context variants of one (declaration, form, context) cell of the
# design's product share one signature; the variant is in the witness
CTX_CLASS = {"same_scope": "same_scope", "nested_block": "nested_block", "nested_function": "nested_function",
             "nested_function2": "nested_function", "method": "method", "while_header": "loop_header",
             "from_header": "loop_header", "while_body": "loop_body", "from_body": "loop_body"}


def cell(item):
    did, form, cx = item
    return (did, base_form(form)[0], CTX_CLASS[cx])
POS_RE = re.compile(r"--> ([^\s:]+):(\d+):(\d+)")


def classify(r):
    """'rejected' | 'accepted' | 'panic' | 'no_position' | 'timeout' | 'other'; plus diag lines in main.ms."""
    out = r.out
    ran = RUN in out
    poss = [(m.group(1), int(m.group(2))) for m in POS_RE.finditer(out)]
    if r.cls in ("wall_timeout", "cpu_timeout", "spawn_error"):
        return "timeout", poss
    if ran:
        return "accepted", poss
    if r.cls == "panic" or r.cls == "signal":
        return "panic", poss
    if r.cls == "fail":
        if not poss:
            return "no_position", poss
        return "rejected", poss
    if r.cls == "ok":
        return "accepted", poss      # compiled and ran nothing?  (sentinel missing)
    return "other", poss


def value_after(r):
    ls = r.lines()
    if VAL in ls:
        i = ls.index(VAL)
        return ls[i + 1] if i + 1 < len(ls) else None
    return None


def one_case(item, flip=None):
    did, form, ctx = item
    decl = DECL_BY_ID[did]
    files, wline = build(decl, form, ctx)
    r, _, _ = core.run_program(files, cpu=10)
    verdict, poss = classify(r)
    res = {"case": "%s/%s/%s" % item, "runs": 1, "verdict": verdict}
    if verdict == "timeout":
        res["inconclusive"] = "%s: %s" % (res["case"], r.cls)
        return res
    k = KINDS.get(decl["kind"], {})
    k = KINDS.get(decl["kind"], {})
    if decl["how"] == "imported" and verdict == "accepted":
        # local-copy reading: accepted is fine as long as the exporter's member is untouched
        after = value_after(r)
        res["imported_accepted"] = True
        if r.cls != "ok":
            res["imported_runtime_failure"] = (r.err or r.out)[-300:]
        elif k.get("shown") is not None and after != k["shown"]:
            if decl["kind"] in ("int", "str", "float", "bool"):
                res["problem"] = "member_changed"
                res["witness"] = {"case": res["case"], "decl": did, "form": form, "ctx": ctx, "files": files,
                                  "write_line": wline, "expected": "mx.%s still shows %s" % (decl["name"], k["shown"]),
                                  "observed": "accepted", "initializer_shown": k["shown"],
                                  "value_printed_after_write": after, "changed": True, "run": r.brief()}
            else:
                res["alias_element_write_changed_member"] = after
        return res
    if verdict == "rejected":
        on_line = any(f == "main.ms" and ln == wline for f, ln in poss) or bool(decl.get("predecl"))
        res["on_write_line"] = on_line
        if not on_line:
            res["elsewhere"] = {"case": res["case"], "write_line": wline, "diagnostics": poss,
                                "out": r.out[-1500:], "source": files["main.ms"]}
    else:
        after = value_after(r)
        res["problem"] = verdict
        res["witness"] = {"case": res["case"], "decl": did, "form": form, "ctx": ctx, "files": files,
                          "write_line": wline, "expected": "rejected at compile time (exit fail, diagnostic with "
                          "position, no %s)" % RUN, "observed": verdict, "initializer_shown": k.get("shown"),
                          "value_printed_after_write": after,
                          "changed": (after is not None and k.get("shown") is not None and after != k.get("shown")),
                          "run": r.brief()}
    # twin
    if decl["how"] == "const":
        tfiles, _ = build(decl, form, ctx, const=False)
        tr, _, _ = core.run_program(tfiles, cpu=10)
        tv, _ = classify(tr)
        res["runs"] += 1
        res["twin"] = tv
        exp = TWIN_ACCEPTED.get(form, True)
        tv_ok = (tv == "accepted") if exp else (tv == "rejected")
        if tv == "accepted" and tr.cls != "ok":
            res["twin_runtime_failure"] = True
        if not tv_ok:
            res["twin_mismatch"] = {"case": res["case"], "expected_twin": "accepted" if exp else "rejected",
                                    "observed_twin": tv, "cls": tr.cls, "out": (tr.out + tr.err)[-1200:],
                                    "source": tfiles["main.ms"]}
        elif exp:
            res["twin_changed"] = value_after(tr) != k.get("shown")
    return res


def one_control(item):
    did, ctx = item
    decl = DECL_BY_ID[did]
    files, _ = build(decl, None, ctx, write=False)
    r, _, _ = core.run_program(files, cpu=10)
    k = KINDS.get(decl["kind"], {})
    res = {"control": "%s/%s" % item, "runs": 1}
    if r.cls in ("wall_timeout", "cpu_timeout", "spawn_error"):
        res["inconclusive"] = "control %s: %s" % (res["control"], r.cls)
        return res
    ls = r.lines()
    ok = r.cls == "ok" and ls[:1] == [RUN] and VAL in ls
    if not ok:
        res["inconclusive"] = "control %s not accepted: %s %s" % (res["control"], r.cls, (r.out + r.err)[-400:])
        return res
    after = value_after(r)
    if k.get("shown") is not None and after != k["shown"]:
        res["problem"] = "control_value"
        res["witness"] = {"case": res["control"], "files": files, "expected": k["shown"], "observed": after,
                          "run": r.brief()}
    return res


# ----------------------------------------------------------------------------- shadowing locals (accepted programs)
# "For constants of number, boolean or string type the value observed is therefore always the initializer":
# a closure / method READS an outer const (so it is captured), then declares a LOCAL of the same name (legal
# shadowing, no write to the const anywhere), then updates that local in place (`op=`, `?=`, from-loop counter).
# Oracle: the program is accepted; the value read first is the initializer; the local shows the updated value;
# the const printed afterwards in its own scope still shows the initializer.
LOCAL = "@@LOCAL@@"
SEEN = "@@SEEN@@"
SHADOW_DECLS = ["const_untyped@module", "const_typed@module", "export_const@module", "const_untyped@function",
                "const_typed@block", "const_float@module", "const_str@module", "const_bool@module",
                "const_optint@module"]
SHADOW_CTXS = ["nested_function", "nested_function2", "method"]
# kind -> (local initial value text, {op: (rhs, expected local shown)}, loop statement or None, expected after loop)
SHADOW_OPS = {
    "int": ("6", {"add": ("1", "7"), "sub": ("1", "5"), "mul": ("2", "12"), "div": ("2", "3"), "mod": ("4", "2")},
            ("0", "from 0 to 3, %s { }", "3")),
    "float": ("0.5", {"add": ("1.5", "2"), "sub": ("0.25", "0.25"), "mul": ("3.0", "1.5"), "div": ("2.0", "0.25"),
                      "mod": ("0.375", "0.125")}, ("0.0", "from 0.0 to 2.0 step 0.5, %s { }", "2")),
    "str": ('"zz"', {"add": ('"x"', "zzx"), "mul": ("2", "zzzz")}, None),
    "bool": ("false", {}, None),
    "optint": ("6", {}, None),
}
SHADOW_UNWRAP = {"int": ("int?", "7", "7"), "float": ("float?", "1.5", "1.5"), "str": ("str?", '"yy"', "yy"),
                 "bool": ("bool?", "false", "false"), "optint": ("int?", "7", "7")}


def shadow_cases():
    out = []
    for did in SHADOW_DECLS:
        kind = DECL_BY_ID[did]["kind"]
        forms = ["opassign_" + o for o in SHADOW_OPS[kind][1]] + ["unwrap_assign"]
        if SHADOW_OPS[kind][2]:
            forms.append("loop_counter")
        for form in forms:
            for ctx in SHADOW_CTXS:
                if ctx == "method" and DECL_BY_ID[did]["place"] == "block":
                    continue
                for read_first in (True, False):
                    out.append((did, form, ctx, read_first))
    return out


def build_shadow(item):
    did, form, ctx, read_first = item
    decl = DECL_BY_ID[did]
    kind, name = decl["kind"], decl["name"]
    k = KINDS[kind]
    bf, op = base_form(form)
    inner = []
    if read_first:
        inner += ["seen9 = %s" % name, 'print "%s"' % SEEN, "print seen9"]
    if bf == "opassign":
        rhs, expected = SHADOW_OPS[kind][1][op]
        inner += ["%s = %s" % (name, SHADOW_OPS[kind][0]), "%s %s %s" % (name, OPSYM[op], rhs)]
    elif bf == "unwrap_assign":
        oty, val, expected = SHADOW_UNWRAP[kind]
        inner += ["%s: %s = nil" % (name, oty), "d9: %s = %s" % (oty, val), "t9 = %s ?= d9" % name]
    else:
        init, loop, expected = SHADOW_OPS[kind][2]
        inner += ["%s = %s" % (name, init), loop % name]
    inner += ['print "%s"' % LOCAL, "print " + name, "return 0"]
    if ctx == "nested_function":
        wl = ["g9 = fn() -> int {"] + ["  " + l for l in inner] + ["}", "g9()"]
    elif ctx == "nested_function2":
        wl = ["g9 = fn() -> int {", "  h9 = fn() -> int {"] + ["    " + l for l in inner] + \
             ["  }", "  h9()", "  return 0", "}", "g9()"]
    else:
        wl = ["class M9 {", "  fn go(self) -> int {"] + ["    " + l for l in inner] + \
             ["  }", "}", "mo9 = M9()", "mo9.go()"]
    flag = ("export " if decl["export"] else "") + "const "
    d = "%s%s: %s = %s" % (flag, name, k["type"], k["init"]) if decl["typed"] else "%s%s = %s" % (flag, name, k["init"])
    body = [d] + wl + ['print "%s"' % VAL, "print " + name]
    lines = ['print "%s"' % RUN]
    if decl["place"] == "module":
        lines += body
    elif decl["place"] == "function":
        lines += ["f9 = fn() {"] + ["  " + b for b in body] + ["}", "f9()"]
    else:
        lines += ["if true {"] + ["  " + b for b in body] + ["}"]
    return {"main.ms": "\n".join(lines) + "\n"}, expected


def after_marker(ls, marker):
    if marker in ls:
        i = ls.index(marker)
        return ls[i + 1] if i + 1 < len(ls) else None
    return None


def one_shadow(item):
    did, form, ctx, read_first = item
    files, expected = build_shadow(item)
    k = KINDS[DECL_BY_ID[did]["kind"]]
    r, _, _ = core.run_program(files, cpu=10)
    res = {"shadow": "%s/%s/%s/%s" % (did, form, ctx, "read_first" if read_first else "no_read"), "runs": 1}
    if r.cls in ("wall_timeout", "cpu_timeout", "spawn_error"):
        res["inconclusive"] = "%s: %s" % (res["shadow"], r.cls)
        return res
    ls = r.lines()
    if RUN not in ls:
        res["inconclusive"] = "shadow case %s rejected by the compiler (legal shadowing expected): %s" % (
            res["shadow"], r.out[-400:])
        return res
    problems = []
    const_after, local, seen = after_marker(ls, VAL), after_marker(ls, LOCAL), after_marker(ls, SEEN)
    if r.cls != "ok":
        problems.append("run_failed")
    else:
        if const_after != k["shown"]:
            problems.append("const_changed")
        if local != expected:
            problems.append("local_wrong")
        if read_first and seen != k["shown"]:
            problems.append("read_not_initializer")
    if problems:
        res["problem"] = "+".join(problems)
        res["witness"] = {"case": res["shadow"], "files": files, "expected": {"const_after": k["shown"], "local": expected,
                                                                                "seen_first": k["shown"] if read_first else None},
                          "observed": {"const_after": const_after, "local": local, "seen_first": seen},
                          "value_printed_after_write": const_after, "initializer_shown": k["shown"], "run": r.brief()}
    return res


# ----------------------------------------------------------------------------- a caller's const of the same name
# A module-level function legally updates a module-level VARIABLE `cv`; it is called from a function that owns a
# `const cv` of its own.  The update must reach the module variable, never the caller's const (names resolve
# lexically, whatever syntactic position the only mention of `cv` sits in).
FOREIGN_FORMS = ["opassign", "modify", "index_opassign", "unwrap_assign", "field_assign"]
FOREIGN_POS = ["plain", "then", "else", "elseif", "final_else", "while_body", "from_body", "nested_closure"]


def foreign_cases():
    return [(f, p) for f in FOREIGN_FORMS for p in FOREIGN_POS]


def build_foreign(item):
    form, pos = item
    pre = []
    if form == "opassign":
        decl, cdecl, w, shown_mod, shown_const = "cv = 1", "const cv = 5", "cv += d9", "6", "5"
    elif form == "modify":
        decl, cdecl, w, shown_mod, shown_const = "cv = 1", "const cv = 5", "modify cv = cv + d9", "6", "5"
    elif form == "index_opassign":
        decl, cdecl, w, shown_mod, shown_const = "cv: [int...] = [1]", "const cv: [int...] = [5]", "cv[0] += d9", "[6]", "[5]"
    elif form == "unwrap_assign":
        decl, cdecl, w, shown_mod, shown_const = "cv: int? = nil", "const cv: int? = 5", "t9 = cv ?= od9", "3", "5"
        pre = ["od9: int? = d9"]
    else:
        pre = []
        decl, cdecl, w, shown_mod, shown_const = "cv = K9(1)", "const cv = K9(5)", "cv.f = cv.f + d9", "6", "5"
    ind = lambda ls: ["  " + l for l in ls]
    if pos == "plain":
        body = [w]
    elif pos == "then":
        body = ["if d9 > 0 {"] + ind([w]) + ["}"]
    elif pos == "else":
        body = ["if d9 < 0 {", "  u9 = 0", "} else {"] + ind([w]) + ["}"]
    elif pos == "elseif":
        body = ["if d9 < 0 {", "  u9 = 0", "} else if d9 > 0 {"] + ind([w]) + ["}"]
    elif pos == "final_else":
        body = ["if d9 < 0 {", "  u9 = 0", "} else if d9 > 100 {", "  u9 = 1", "} else {"] + ind([w]) + ["}"]
    elif pos == "while_body":
        body = ["k9 = 0", "while k9 < 1 {"] + ind([w, "k9 += 1"]) + ["}"]
    elif pos == "from_body":
        body = ["from 0 to 1 {"] + ind([w]) + ["}"]
    else:
        body = ["in9 = fn() {"] + ind([w]) + ["}", "in9()"]
    show = "cv.f" if form == "field_assign" else "cv"
    lines = ['print "%s"' % RUN]
    if form == "field_assign":
        lines += CLASS_K9
    lines += [decl, "w9 = fn(d9: int) {"] + ind(pre + body) + ["}",
              "h9 = fn() {"] + ind([cdecl, "w9(2)", "w9(3)", 'print "%s"' % VAL, "print " + show]) + ["}",
              "h9()", 'print "%s"' % LOCAL, "print " + show]
    return {"main.ms": "\n".join(lines) + "\n"}, shown_const, shown_mod


def one_foreign(item):
    files, shown_const, shown_mod = build_foreign(item)
    r, _, _ = core.run_program(files, cpu=10)
    res = {"foreign": "%s/%s" % item, "runs": 1}
    if r.cls in ("wall_timeout", "cpu_timeout", "spawn_error"):
        res["inconclusive"] = "%s: %s" % (res["foreign"], r.cls)
        return res
    ls = r.lines()
    if RUN not in ls:
        res["inconclusive"] = "caller-const case %s rejected by the compiler (legal program expected): %s" % (
            res["foreign"], r.out[-400:])
        return res
    const_seen, mod_seen = after_marker(ls, VAL), after_marker(ls, LOCAL)
    problems = []
    if r.cls != "ok":
        problems.append("run_failed")
    else:
        if const_seen != shown_const:
            problems.append("const_changed")
        if mod_seen != shown_mod:
            problems.append("variable_not_updated")
    if problems:
        res["problem"] = "+".join(problems)
        res["witness"] = {"case": "callers_const:" + res["foreign"], "files": files,
                          "expected": {"callers_const": shown_const, "module_variable": shown_mod},
                          "observed": {"callers_const": const_seen, "module_variable": mod_seen},
                          "value_printed_after_write": const_seen, "initializer_shown": shown_const, "run": r.brief()}
    return res


# ----------------------------------------------------------------------------- the write sits in an IMPORTED module
# (round 7): the whole case — declaration and illegal write — is moved into `lib9.ms`; the entry only imports it, in
# three shapes (plain `import lib9`, by name, through a middle module).  It must be rejected exactly like the
# single-file case: a diagnostic that names lib9.ms, nothing runs.  The write-free twin must be accepted.
INMODULE_SHAPES = ["plain", "named", "chain", "chain_named"]


def build_inmodule(did, form, ctx, shape, write=True):
    decl = DECL_BY_ID[did]
    files, wline = build(decl, form, ctx, write=write)
    lib = files.pop("main.ms")
    lib = "\n".join(l for l in lib.split("\n") if l != 'print "%s"' % RUN) + "\nexport zz9: int = 1\n"
    files["lib9.ms"] = lib
    imp = "import lib9\nprint lib9.zz9\n" if shape in ("plain", "chain") else "import zz9 from lib9\nprint zz9\n"
    if shape.startswith("chain"):
        files["mid9.ms"] = imp.split("\n")[0] + "\nexport yy9: int = 2\n"
        files["main.ms"] = 'print "%s"\nimport mid9\nprint mid9.yy9\n' % RUN
    else:
        files["main.ms"] = 'print "%s"\n' % RUN + imp
    return files


def one_inmodule(item):
    did, form, ctx, shape = item
    res = {"case": "inmodule:%s/%s/%s/%s" % item, "runs": 2}
    cfiles = build_inmodule(did, form, ctx, shape, write=False)
    rc_, _, _ = core.run_program(cfiles, cpu=10)
    if rc_.cls in ("wall_timeout", "cpu_timeout", "spawn_error"):
        res["inconclusive"] = "%s: %s" % (res["case"], rc_.cls)
        return res
    if rc_.cls != "ok":
        res["vacuous"] = (rc_.out + rc_.err)[-300:]          # the write-free twin is not accepted: nothing to learn
        return res
    files = build_inmodule(did, form, ctx, shape)
    r, _, _ = core.run_program(files, cpu=10)
    if r.cls in ("wall_timeout", "cpu_timeout", "spawn_error"):
        res["inconclusive"] = "%s: %s" % (res["case"], r.cls)
        return res
    text = r.out + r.err
    if core.compile_rejected(r) and RUN not in r.out and "lib9.ms:" in text:
        res["rejected"] = True
    else:
        res["problem"] = "accepted" if RUN in r.out or r.cls == "ok" else ("no_position_in_lib9" if core.compile_rejected(r) else r.cls)
        res["witness"] = {"case": res["case"], "files": files, "expected": "rejected at compile time with a diagnostic naming "
                          "lib9.ms, nothing runs", "observed": res["problem"], "run": r.brief()}
    return res


def inmodule_cases():
    """A sub-product of the main one: scalar / list / optional constants x the basic write forms x three contexts."""
    want_decl = ("const_untyped@module", "const_typed@module", "const_str@module", "const_untyped@function", "const_optint@module",
                 "const_list@module", "const_unpacked@module")
    want_form = ("assign", "typed_assign", "unwrap_assign", "modify", "opassign_add", "opassign_mul", "index_assign",
                 "index_opassign_add", "from_counter", "unpack")
    out = []
    for did, form, ctx in product()[0]:
        if did in want_decl and form in want_form and ctx in ("same_scope", "nested_function", "nested_block"):
            for shape in INMODULE_SHAPES:
                out.append((did, form, ctx, shape))
    return out


def work(item):
    if item[0] == "foreign":
        return one_foreign(item[1])
    if item[0] == "case":
        return one_case(item[1])
    if item[0] == "shadow":
        return one_shadow(item[1])
    if item[0] == "inmodule":
        return one_inmodule(item[1])
    return one_control(item[1])


def run(ctx):
    out = core.Outcome()
    out.level = "fault_enumeration"
    cases, dropped = product()
    # (no write-free control for const_over_variable: the pinned compiler refuses the re-declaration itself)
    controls = sorted({(c[0], c[2]) for c in cases if not DECL_BY_ID[c[0]].get("predecl")})
    shadows = shadow_cases()
    items = [("case", c) for c in cases] + [("control", c) for c in controls] + [("shadow", c) for c in shadows] + \
        [("foreign", c) for c in foreign_cases()] + [("inmodule", c) for c in inmodule_cases()]
    results = core.pmap(work, items, chunksize=8)
    cov = {"cases": len(cases), "controls": len(controls), "dropped_by_applicability_table": len(dropped),
           "rejected_as_required": 0, "rejected_on_write_line": 0, "twins_run": 0, "twins_accepted_and_changed": 0,
           "twins_rejected_by_design": 0, "controls_ok": 0, "decl_contexts": len(DECLS),
           "write_forms": len({c[1] for c in cases}), "write_contexts": len(CTXS)}
    per_form, per_ctx, per_decl = {}, {}, {}
    cells, failing, obs = {}, {}, {}
    cells_total_shadow = [0]
    for (kind, item), (status, res) in zip(items, results):
        if status != "ok":
            out.inconclusive.append("%s %s: %s" % (kind, item, str(res)[-400:]))
            continue
        out.evaluations += res["runs"]
        if "inconclusive" in res:
            out.inconclusive.append(res["inconclusive"])
            continue
        if kind == "inmodule":
            cov["inmodule_cases"] = cov.get("inmodule_cases", 0) + 1
            if res.get("vacuous"):
                cov["inmodule_cases_vacuous(write-free twin not accepted)"] = cov.get("inmodule_cases_vacuous(write-free twin not accepted)", 0) + 1
            elif "problem" in res:
                out.violations.append(core.Violation("C10:inmodule:%s/%s/%s:%s:%s" % (item[0], base_form(item[1])[0], CTX_CLASS[item[2]], item[3], res["problem"]),
                                                     "the illegal write inside an imported module (%s) is not rejected: %s" % (res["case"], res["problem"]), res["witness"]))
            else:
                cov["inmodule_cases_rejected"] = cov.get("inmodule_cases_rejected", 0) + 1
                out.distinct.add(core.h(["inmodule", item]))
            continue
        if kind == "foreign":
            cov["callers_const_cases"] = cov.get("callers_const_cases", 0) + 1
            out.distinct.add(core.h(["foreign", item]))
            if "problem" in res:
                key = ("callers_const", item[0], item[1])
                fk = (key, res["problem"])
                if fk not in failing:
                    failing[fk] = (res["witness"], [])
                    cells.setdefault(key, [0, 0])
                failing[fk][1].append("%s -> caller's const %s, module variable %s" % (
                    res["foreign"], res["witness"]["observed"]["callers_const"], res["witness"]["observed"]["module_variable"]))
            else:
                cov["callers_const_cases_ok"] = cov.get("callers_const_cases_ok", 0) + 1
            cells_total_shadow[0] += 1
            continue
        if kind == "shadow":
            cov["shadowing_local_cases"] = cov.get("shadowing_local_cases", 0) + 1
            out.distinct.add(core.h(["shadow", item]))
            if "problem" in res:
                sdid, sform, sctx, _rf = item
                key = ("shadowed_local:" + sdid, base_form(sform)[0], CTX_CLASS[sctx])
                fk = (key, res["problem"])
                if fk not in failing:
                    failing[fk] = (res["witness"], [])
                    cells.setdefault(key, [0, 0])
                failing[fk][1].append("%s -> const %s, local %s" % (res["shadow"], res["witness"]["observed"]["const_after"],
                                                                    res["witness"]["observed"]["local"]))
            else:
                cov["shadowing_local_cases_ok"] = cov.get("shadowing_local_cases_ok", 0) + 1
                if not any("shadow" in str(x.get("case", "")) for x in out.samples if isinstance(x, dict)) and \
                        item == ("const_untyped@module", "opassign_add", "nested_function", True):
                    out.samples.append({"case": "shadowed_local:" + res["shadow"], "files": build_shadow(item)[0],
                                        "verdict": "accepted; const still the initializer, local updated"})
            cells_total_shadow[0] += 1
            continue
        if kind == "control":
            if "problem" in res:
                out.violations.append(core.Violation("C10:control:%s:value_differs_from_initializer" % res["control"],
                                                     "control program prints a value different from the initializer",
                                                     res["witness"]))
            else:
                cov["controls_ok"] += 1
            continue
        did, form, cx = item
        out.distinct.add(core.h(item))
        per_form[form] = per_form.get(form, 0) + 1
        per_ctx[cx] = per_ctx.get(cx, 0) + 1
        per_decl[did] = per_decl.get(did, 0) + 1
        if "twin" in res:
            cov["twins_run"] += 1
            if "twin_mismatch" in res:
                out.inconclusive.append("applicability/twin table mismatch: " + json.dumps(res["twin_mismatch"])[:900])
            elif res["twin"] == "accepted":
                if res.get("twin_changed"):
                    cov["twins_accepted_and_changed"] += 1
                else:
                    cov["twins_accepted_unchanged"] = cov.get("twins_accepted_unchanged", 0) + 1
            else:
                cov["twins_rejected_by_design"] += 1
        cells.setdefault(cell(item), [0, 0])[0] += 1
        if res.get("imported_accepted") and "problem" not in res:
            cov["imported_name_writes_accepted_member_unchanged"] = cov.get("imported_name_writes_accepted_member_unchanged", 0) + 1
            if "alias_element_write_changed_member" in res:
                obs.setdefault("element write through an imported alias changed the exporter's const list "
                               "(not asserted: alias reading)", []).append("%s/%s/%s -> mx.el = %s" % (
                                   did, form, cx, res["alias_element_write_changed_member"]))
            if "imported_runtime_failure" in res:
                obs.setdefault("accepted write to an imported name fails at run time", []).append(
                    "%s/%s/%s: %s" % (did, form, cx, res["imported_runtime_failure"][-120:]))
            continue
        if "problem" in res:
            cells[cell(item)][1] += 1
            key = (cell(item), res["problem"])
            if key not in failing:
                failing[key] = (res["witness"], [])
            failing[key][1].append("%s/%s -> value afterwards %s" % (form, cx, res["witness"]["value_printed_after_write"]))
        else:
            cov["rejected_as_required"] += 1
            if res.get("on_write_line"):
                cov["rejected_on_write_line"] += 1
            else:
                out.inconclusive.append("rejected, but no diagnostic on the write's line (harness check): " +
                                        json.dumps(res["elsewhere"])[:900])
            if len(out.samples) < 3 and item in (("const_typed@function", "opassign_mul", "nested_function"),
                                                 ("member_const@other_module", "field_assign", "method"),
                                                 ("const_list@block", "index_assign", "while_body")):
                files, wl = build(DECL_BY_ID[did], form, cx)
                out.samples.append({"case": "%s/%s/%s" % item, "files": files, "write_line": wl,
                                    "verdict": "rejected on the write's line"})
    for ((did, fam, cc), problem), (w, variants) in sorted(failing.items()):
        w = dict(w)
        w["failing_variants_of_this_cell"] = variants
        n_all = cells[(did, fam, cc)][0] or len(variants)
        out.violations.append(core.Violation(
            "C10:%s/%s/%s:%s" % (did, fam, cc, problem),
            "%s / %s / %s: %s in %d of %d variants (first: value afterwards %s, initializer %s)" % (
                did, fam, cc, problem, len(variants), n_all, w["value_printed_after_write"], w["initializer_shown"]), w))
    cov["observations_not_asserted"] = {k2: {"count": len(v), "examples": v[:3]} for k2, v in obs.items()}
    cov["cells(decl,form,ctx)"] = len(cells)
    cov["cells_with_a_violation"] = len({k[0] for k in failing})
    cov["cases_per_form"] = per_form
    cov["cases_per_context"] = per_ctx
    cov["cases_per_declaration"] = per_decl
    cov["dropped_examples"] = ["%s/%s/%s: %s" % d for d in dropped[:6]]
    cov["dropped_reasons"] = {}
    for d in dropped:
        cov["dropped_reasons"][d[3]] = cov["dropped_reasons"].get(d[3], 0) + 1
    out.coverage.update(cov)
    out.exhaustive = not out.inconclusive
    out.rule = ("one program per applicable (declaration context, write form, write context) triple of the product "
                "%d declaration contexts x %d forms x %d contexts (applicability tables in the engine, as data); "
                "every case is non-trivial by construction: it contains exactly one write to a read-only name in an "
                "otherwise valid program (validated by the non-const twin / the write-free control); distinct = "
                "distinct triples; evaluations = runs of case + twin + control programs."
                % (len(DECLS), len(ALL_FORMS) + 6, len(CTXS)))
    out.assumptions = [
        "a member reached as `m.x` counts as 'a member it exports' whether or not the exporter declared it const; a "
        "name imported with `import x from m` may be read as a local copy (upstream test not_import_const_bypass): "
        "for it either compiler outcome is accepted and only 'the exporter's scalar member still shows its "
        "initializer' is asserted; element writes through such a name to an exported const list are reported as an "
        "observation, not a violation (alias reading)",
        "inside a nested function plain `=`, typed `=`, unpacking, re-declaration and a from-loop counter create a new "
        "local and are not writes to the outer name (excluded by the table); `modify`, op-assign, `?=`, index and "
        "field writes address the captured name and are included",
        "rejection may carry any wording; only exit class, presence of a position and absence of the sentinel are "
        "asserted; a diagnostic on the write's line is required for non-vacuity only",
    ]
    if out.evaluations == 0:
        out.observed_nothing = "no program was executed"
    return out


def replay(path):
    with open(os.path.join(path, "case.json")) as f:
        case = json.load(f)
    w = case["witness"]
    if case["signature"].startswith("C10:shadowed_local:"):
        did, form, cx, rf = w["case"].split("/")
        res = one_shadow((did, form, cx, rf == "read_first"))
        print("case:", w["case"])
        print("expected:", w["expected"])
        print("observed now:", res.get("witness", {}).get("observed", "as expected"), res.get("problem", "agrees"))
        return 1 if "problem" in res else 0
    files = {}
    root = os.path.join(path, "files")
    for dp, _, fns in os.walk(root):
        for fn in fns:
            p = os.path.join(dp, fn)
            with open(p) as f:
                files[os.path.relpath(p, root)] = f.read()
    r, _, _ = core.run_program(files, cpu=10)
    verdict, poss = classify(r)
    print("case:", w.get("case"))
    print("expected: rejected; observed now:", verdict, "| value after write:", value_after(r))
    print(r.out[-1500:])
    return 0 if verdict == "rejected" else 1
