"""C14 — string and number built-in methods compute their documented function.

Workload: every method of the statement x boundary receivers/arguments (deterministic catalogue, identical for
every seed) + seeded random values.  Receivers and arguments go through variables; every probe is
`print typeof (E)` + `print E` under typed printing, so the declared static type, the run-time kind and the
value are all observed.  Oracle: mv/models/builtins.py (one function per method).

Probes whose model allows a failure run alone (one program each); the others are batched (a batch that stops
early is continued after the stopping probe, and every deviation is re-run alone before it is reported)."""
import json
import math
import os
import random
import re

from .. import core
from ..models import builtins as M

BATCH = 64
SOLO_CHUNK = 32

# ----------------------------------------------------------------------------- values -> source

def lit_str(s):
    out = []
    for ch in s:
        if ch == "\\":
            out.append("\\\\")
        elif ch == '"':
            out.append('\\"')
        elif ch == "\n":
            out.append("\\n")
        elif ch == "\r":
            out.append("\\r")
        elif ch == "\t":
            out.append("\\t")
        else:
            out.append(ch)
    return '"' + "".join(out) + '"'


def float_lit(x):
    """Positive finite double as `digits.digits` (the grammar has no exponent form)."""
    t = M.fmt_float(x)
    return t if "." in t else t + ".0"


BIG_FLOAT = float_lit(1e308)


def decls(name, kind, v):
    """Source lines that bind `name` to the value without using any method under test."""
    if kind == "str":
        return ["%s = %s" % (name, lit_str(v))]
    if kind == "int":
        if v == M.I32_MIN:
            return ["%s_h = -2147483647" % name, "%s = %s_h - 1" % (name, name)]
        if v >= 0 and v % 5 == 2:                    # every spelling of a literal denotes the same value and kind
            return ["%s = 0x%x" % (name, v)]
        return ["%s = %d" % (name, v)]
    if kind == "bigint":
        if v >= 2 ** 31 and v % 4 == 1:              # an int literal too large for int is a bigint (decimal ...
            return ["%s = %d" % (name, v)]
        if v >= 2 ** 31 and v % 4 == 3:              # ... and hex spelling)
            return ["%s = 0x%x" % (name, v)]
        if v >= 0 and v % 4 == 2:
            return ["%s = B0x%x" % (name, v)]
        if v >= 0:
            return ["%s = B%d" % (name, v)]
        if v == M.I128_MIN:
            return ["%s_h = B%d" % (name, M.I128_MAX), "%s = B0 - %s_h - B1" % (name, name)]
        return ["%s_h = B%d" % (name, -v), "%s = B0 - %s_h" % (name, name)]
    if kind == "byte":
        return ["%s = 0b%s" % (name, format(v, "b"))]
    if kind == "bool":
        return ["%s = %s" % (name, "true" if v else "false")]
    if kind == "float":
        if v != v:
            return ["%s_h = %s" % (name, BIG_FLOAT), "%s_i = %s_h * %s_h" % (name, name, name),
                    "%s = %s_i - %s_i" % (name, name, name)]
        if math.isinf(v):
            if v > 0:
                return ["%s_h = %s" % (name, BIG_FLOAT), "%s = %s_h * %s_h" % (name, name, name)]
            return ["%s_h = %s" % (name, BIG_FLOAT), "%s_i = %s_h * %s_h" % (name, name, name),
                    "%s = -%s_i" % (name, name)]
        if math.copysign(1.0, v) < 0:
            return ["%s = -%s" % (name, float_lit(-v))]
        return ["%s = %s" % (name, float_lit(v))]
    raise ValueError(kind)


def enc(tv):
    """(kind, value) -> JSON-able."""
    k, v = tv
    if k == "float":
        return [k, "nan" if v != v else v.hex()]
    if k in ("int", "bigint", "byte"):
        return [k, str(v)]
    return [k, v]


def dec(e):
    k, v = e
    if k == "float":
        return (k, math.nan if v == "nan" else float.fromhex(v))
    if k in ("int", "bigint", "byte"):
        return (k, int(v))
    return (k, v)


def show(tv):
    k, v = tv
    if k == "str":
        return lit_str(v)
    if k == "float":
        return M.fmt_float(v) + "f"
    if k == "bigint":
        return "B%d" % v
    if k == "byte":
        return M.fmt_byte(v)
    return str(v)


# ----------------------------------------------------------------------------- method table
# name -> (expression template, model(recv value, *arg values) -> Spec)

def _num(fn):
    return lambda r, *a: fn(r[0], r[1], *[x[1] for x in a])


def _s(fn):
    return lambda r, *a: fn(r[1], *[x[1] for x in a])


def _concat(r, a):
    return M.str_concat(r[1], a[1] if a[0] == "str" else (M.NUM_KIND.get(a[0], "Bool"), a[1]))


def _concat_rev(r, a):
    return M.str_concat(a[1] if a[0] == "str" else (M.NUM_KIND.get(a[0], "Bool"), a[1]), r[1])


METHODS = {
    "len": ("{r}.len()", _s(M.str_len)),
    "index": ("{r}[{a}]", _s(M.str_index)),
    "index_then_len": ("({r}[{a}]).len()", _s(M.str_index_then_len)),
    "substring": ("{r}.substring({a}, {b})", _s(M.str_substring)),
    "contains": ("{r}.contains({a})", _s(M.str_contains)),
    "index_of": ("{r}.index_of({a})", _s(M.str_index_of)),
    "reverse": ("{r}.reverse()", _s(M.str_reverse)),
    "insert": ("{r}.insert({a}, {b})", _s(M.str_insert)),
    "replace": ("{r}.replace({a}, {b})", _s(M.str_replace)),
    "delete": ("{r}.delete({a}, {b})", _s(M.str_delete)),
    "split": ("{r}.split({a})", _s(M.str_split)),
    "chars": ("{r}.chars()", _s(M.str_chars)),
    "parse_int": ("{r}.parse_int()", _s(M.str_parse_int)),
    "parse_int_radix": ("{r}.parse_int_radix({a})", _s(M.str_parse_int_radix)),
    "parse_bigint": ("{r}.parse_bigint()", _s(M.str_parse_bigint)),
    "parse_bigint_radix": ("{r}.parse_bigint_radix({a})", _s(M.str_parse_bigint_radix)),
    "parse_float": ("{r}.parse_float()", _s(M.str_parse_float)),
    "parse_bool": ("{r}.parse_bool()", _s(M.str_parse_bool)),
    "parse_byte": ("{r}.parse_byte()", _s(M.str_parse_byte)),
    "repeat": ("{r} * {a}", _s(M.str_repeat)),
    "repeat_rev": ("{a} * {r}", _s(M.str_repeat)),
    "concat": ("{r} + {a}", _concat),
    "concat_rev": ("{a} + {r}", _concat_rev),
    "to_int": ("{r}.to_int()", _num(M.num_to_int)),
    "to_bigint": ("{r}.to_bigint()", _num(M.num_to_bigint)),
    "to_byte": ("{r}.to_byte()", _num(M.num_to_byte)),
    "to_float": ("{r}.to_float()", _num(M.num_to_float)),
    "abs": ("{r}.abs()", _num(M.num_abs)),
    "pow": ("{r}.pow({a})", _num(M.num_pow)),
    "powf": ("{r}.powf({a})", _num(M.num_powf)),
    "sqrt": ("{r}.sqrt()", _num(M.num_sqrt)),
    "floor": ("{r}.floor()", _num(M.num_floor)),
    "ceil": ("{r}.ceil()", _num(M.num_ceil)),
    "round": ("{r}.round()", _num(M.num_round)),
    "ipart": ("{r}.ipart()", _num(M.num_ipart)),
    "fpart": ("{r}.fpart()", _num(M.num_fpart)),
    "to_str": ("{r}.to_str()", _num(M.num_to_str)),
    "to_ascii": ("{r}.to_ascii()", _num(M.num_to_ascii)),
}
STATEMENT_METHODS = sorted(METHODS)


def num_spelling(a):
    """A non-canonical literal spelling of a non-negative int / bigint / float value (None when there is none)."""
    kind, v = a
    if kind == "float":
        if v != v or v in (float("inf"), float("-inf")) or v < 0 or v >= 1e15:
            return None
        t = M.fmt_float(v)
        return t + ".0" if "." not in t else t + "0"
    if kind == "int" and v >= 0:
        if v < 100:
            return "00%d" % v
        if v >= 1000 and v % 2:
            return "{:,}".format(v).replace(",", "_")
        return "0x%x" % v
    if kind == "bigint" and v >= 0:
        return "B0x%x" % v if v % 2 else "B00%d" % v
    return None


def spec_of(probe):
    method, recv, args = probe[0], probe[1], probe[2]
    return METHODS[method][1](recv, *args)


def probe_source(probe, k):
    """(lines, expression) for probe number k of a program (all names carry the probe number).  Probes whose origin
    ends in `:inline` write a string receiver and non-negative int arguments as LITERALS inside the expression (the
    compiler may evaluate it), `:const` binds the receiver with `const`."""
    method, recv, args = probe[0], probe[1], probe[2]
    form = probe[3].split(":")[1] if ":" in probe[3] else "var"
    names = {"r": "p%dr" % k}
    lines = []
    if form == "inline" and recv[0] == "str":
        names["r"] = lit_str(recv[1])
    elif form == "const" and recv[0] == "str":
        lines.append("const %s = %s" % (names["r"], lit_str(recv[1])))
    else:
        lines = decls(names["r"], recv[0], recv[1])
    if form in ("numlit", "bothlit") and method in ("concat", "concat_rev") and args and num_spelling(args[0]) is not None:
        # round 7: `+` between a string and a NUMBER LITERAL in a non-canonical spelling (2.0, 1.50, 007, 0x10, 1_000):
        # the text appended is the printed form of the VALUE; string in a variable (numlit) or a literal too (bothlit)
        if form == "bothlit":
            names["r"] = lit_str(recv[1])
        names["a"] = num_spelling(args[0])
        return lines, METHODS[method][0].format(**names)
    for slot, a in zip("ab", args):
        if form in ("inline", "const") and a[0] == "int" and a[1] >= 0:
            names[slot] = str(a[1])
            continue
        names[slot] = "p%d%s" % (k, slot)
        lines += decls(names[slot], a[0], a[1])
    expr = METHODS[method][0].format(**names)
    return lines, expr


def program(probes):
    out, exprs = [], []
    for k, p in enumerate(probes):
        lines, expr = probe_source(p, k)
        out += lines
        out.append("print typeof (%s)" % expr)
        out.append("print %s" % expr)
        exprs.append(expr)
    return "\n".join(out) + "\n", exprs


def human(probe):
    method, recv, args = probe[0], probe[1], probe[2]
    t = METHODS[method][0].format(r=show(recv), a=show(args[0]) if args else "", b=show(args[1]) if len(args) > 1 else "")
    return t


RECORD = re.compile(r"«([^»\n]*)» ")


def records(out):
    """Typed-print records: [(kind, text)].  A record starts with `«Kind» ` at the beginning of a line;
    the value may contain line breaks."""
    if not out:
        return []
    parts = ("\n" + out).split("\n«")
    recs = []
    for part in parts[1:]:
        m = RECORD.match("«" + part)
        if not m:
            recs.append(("?", part))
            continue
        text = ("«" + part)[m.end():]
        recs.append((m.group(1), text))
    # the last record ends with the newline `print` adds
    recs = [(k, t[:-1] if i == len(recs) - 1 and t.endswith("\n") else t) for i, (k, t) in enumerate(recs)]
    return recs


def qualifier(probe):
    """Part of the signature: the boundary class of the receiver/arguments (keeps one finding from masking a
    different defect of the same method)."""
    method, recv, args = probe[0], probe[1], probe[2]
    k, v = recv
    if k == "float":
        if v != v:
            return "nan"
        if math.isinf(v):
            return "inf"
        return "magnitude>=2^63" if abs(v) >= 2.0 ** 63 else ""
    if k == "bigint":
        return "" if M.I32_MIN <= v <= M.I32_MAX else "receiver_beyond_int"
    if method == "pow" and k in ("int", "byte") and args[0][1] >= 0:
        lo, hi = (M.I32_MIN, M.I32_MAX) if k == "int" else (0, 255)
        n = args[0][1]
        if abs(v) >= 2 and n > 40:
            return "result_beyond_receiver_kind"
        return "" if lo <= v ** n <= hi else "result_beyond_receiver_kind"
    if method == "delete" and k == "str" and M.is_ascii(v) and args[0][1] == 0 and args[1][1] == len(v):
        return "whole_text"
    return ""


def judge(probe, spec, static, observed):
    """-> None (agrees) or deviation class."""
    if observed is M.FAIL:
        return None if spec.may_fail() else "failure_in_domain"
    if any(M.outcome_matches(o, observed) for o in spec.accept):
        if static is not None and static != spec.declared:
            return "declared_type"
        if static is not None and not M.kind_conforms(static, observed[0]):
            return "wrong_kind"
        return None
    if spec.expects_failure_only():
        return "value_outside_domain"
    if any(M.value_matches_ignoring_kind(o, observed) for o in spec.accept):
        return "wrong_kind"
    return "wrong_value"


def signature(probe, cls):
    q = qualifier(probe)
    return "C14:%s:%s:%s%s" % (probe[0], probe[1][0], cls, "(%s)" % q if q else "")


def run_once(probes):
    """Run one program.  -> (status, n_complete_probes, [(static, observed)], res) ; status in ok stopped rejected inconclusive."""
    src, exprs = program(probes)
    r, _, _ = core.run_program({"main.ms": src}, cpu=20, typed=True, tag="c14")
    if r.cls in ("wall_timeout", "cpu_timeout", "spawn_error"):
        return "inconclusive", 0, [], r, src
    if core.compile_rejected(r):
        return "rejected", 0, [], r, src
    recs = records(r.out)
    n = len(recs) // 2
    got = []
    for i in range(min(n, len(probes))):
        st, val = recs[2 * i], recs[2 * i + 1]
        got.append((st[1] if st[0] == "Str" else "?" + st[0], val))
    if r.cls == "ok":
        if len(recs) != 2 * len(probes):
            return "inconclusive", n, got, r, src
        return "ok", n, got, r, src
    return "stopped", n, got, r, src


def solo(probe):
    """One probe in its own program -> dict(status, static, observed, run, src)."""
    status, n, got, r, src = run_once([probe])
    b = r.brief()
    b.pop("cpu", None)
    b["err"] = re.sub(r"\(\d+\) panicked", "(N) panicked", b["err"])
    d = {"status": status, "src": src, "run": b, "static": None, "observed": None}
    if status == "ok":
        d["static"], d["observed"] = got[0]
    elif status == "stopped":
        d["observed"] = M.FAIL
        d["failure"] = list(core.classify_failure(r))
        recs = records(r.out)
        if recs and recs[0][0] == "Str":
            d["static"] = recs[0][1]
    return d


def obs_text(observed):
    if observed is M.FAIL:
        return "failure"
    if observed is None:
        return "none"
    return "«%s» %s" % observed


def work(item):
    mode, probes = item
    res = {"runs": 0, "probes": 0, "agree": 0, "per_method": {}, "open": {}, "fail_confirmed": 0, "fail_classes": {},
           "deviations": [], "rejected": [], "inconclusive": [], "sample": None, "hashes": [], "prefix_obs": [],
           "kinds": {}, "unit_examples": {}}

    def account(probe, spec, static, observed, from_solo, sol=None):
        res["probes"] += 1
        key = "%s:%s" % (probe[0], probe[1][0])
        res["per_method"][key] = res["per_method"].get(key, 0) + 1
        cls = judge(probe, spec, static, observed)
        if cls is None:
            res["agree"] += 1
            if not spec.open:
                res["hashes"].append(core.h([probe[0], enc(probe[1]), [enc(a) for a in probe[2]]]))
            else:
                rd = res["open"].setdefault(probe[0], {})
                name = spec.reading_of(observed)       # which reading(s) the implementation's result fits
                rd[name] = rd.get(name, 0) + 1
                if name and ("chars" in name.split("|") or "bytes" in name.split("|")):
                    ex = res["unit_examples"].setdefault(probe[0], {})
                    if name not in ex:
                        ex[name] = "%s -> %s" % (human(probe), obs_text(observed))
                if probe[1][0] == "str" and probe[0].startswith("parse_") and \
                        probe[1][1].lower().lstrip("-").startswith("0x") and len(res["prefix_obs"]) < 40:
                    res["prefix_obs"].append("%s -> %s" % (human(probe), obs_text(observed)))
            if observed is M.FAIL:
                res["fail_confirmed"] += 1
            else:
                res["kinds"][observed[0].split("[")[0]] = res["kinds"].get(observed[0].split("[")[0], 0) + 1
            if not spec.open and probe[2] and observed is not M.FAIL and len(probe[1][1] if probe[1][0] == "str" else "xx") > 1 \
                    and (res["sample"] is None or res["sample"]["method"] == probe[0]) and len(obs_text(observed)) < 200:
                if res["sample"] is None or len(res["sample"]["call"]) < len(human(probe)) < 90:
                    res["sample"] = {"method": probe[0], "call": human(probe), "declared": static,
                                     "observed": obs_text(observed), "expected": spec.describe()}
            return
        # deviation: confirm alone
        if not from_solo:
            sol = solo(probe)
            res["runs"] += 1
            if sol["status"] in ("inconclusive", "rejected"):
                res["inconclusive"].append("deviation of %s not reproducible alone (%s)" % (human(probe), sol["status"]))
                return
            cls2 = judge(probe, spec, sol["static"], sol["observed"])
            if cls2 is None:
                res["inconclusive"].append("deviation of %s (%s) seen in a batch only" % (human(probe), cls))
                return
            cls, static, observed = cls2, sol["static"], sol["observed"]
        res["deviations"].append({
            "signature": signature(probe, cls), "class": cls, "call": human(probe), "source": probe[3],
            "probe": [probe[0], enc(probe[1]), [enc(a) for a in probe[2]]],
            "expected": spec.describe(), "declared_by_model": spec.declared, "declared_by_typeof": static,
            "observed": obs_text(observed), "failure": sol.get("failure") if sol else None,
            "run": sol["run"] if sol else None, "src": sol["src"] if sol else None})

    def note_failure(sol):
        f = sol.get("failure")
        if f:
            k = f[0] + (":" + f[1] if f[0] in ("defined", "panic_defined") else
                        ":" + re.sub(r"[0-9]+", "N", re.sub(r"`[^`]*`", "`_`", f[1]))[:90])
            res["fail_classes"][k] = res["fail_classes"].get(k, 0) + 1

    if mode == "solo":
        for p in probes:
            spec = spec_of(p)
            sol = solo(p)
            res["runs"] += 1
            if sol["status"] == "inconclusive":
                res["inconclusive"].append("%s: %s" % (human(p), sol["run"]["cls"]))
                continue
            if sol["status"] == "rejected":
                res["rejected"].append({"call": human(p), "msg": (sol["run"]["out"] + sol["run"]["err"])[-400:]})
                continue
            note_failure(sol)
            account(p, spec, sol["static"], sol["observed"], True, sol)
        return res
    # batch mode
    rest = list(probes)
    while rest:
        status, n, got, r, src = run_once(rest)
        res["runs"] += 1
        if status == "inconclusive":
            res["inconclusive"].append("batch of %d: %s" % (len(rest), r.cls))
            return res
        if status == "rejected":
            if len(rest) == 1:
                res["rejected"].append({"call": human(rest[0]), "msg": (r.out + r.err)[-400:]})
                return res
            # locate the rejected probe(s): run every probe alone
            for p in rest:
                sub = work(("solo", [p]))
                for k2 in ("runs", "probes", "agree", "fail_confirmed"):
                    res[k2] += sub[k2]
                for k2 in ("deviations", "rejected", "inconclusive", "hashes", "prefix_obs"):
                    res[k2] += sub[k2]
                for k2 in ("per_method", "fail_classes", "kinds"):
                    for a, b in sub[k2].items():
                        res[k2][a] = res[k2].get(a, 0) + b
            return res
        for p, (static, observed) in zip(rest, got):
            account(p, spec_of(p), static, observed, False)
        if status == "ok":
            return res
        # stopped at probe n: it failed although the model expects a value
        p = rest[n]
        sol = solo(p)
        res["runs"] += 1
        note_failure(sol)
        if sol["status"] in ("ok", "stopped"):
            account(p, spec_of(p), sol["static"], sol["observed"], True, sol)
            if sol["status"] == "ok":
                res["inconclusive"].append("%s stopped a batch but runs alone" % human(p))
        else:
            res["inconclusive"].append("%s: %s alone" % (human(p), sol["status"]))
        rest = rest[n + 1:]
    return res


# ----------------------------------------------------------------------------- catalogue

STRS = ["", "a", "ab", "hello world", "  x ", "0", "-0", "25", "-25", "0x1F", "0b101", "2147483647", "2147483648",
        "1e3", "é", "aé", "日本", "goodwill", "aaa", "abcabc", "a😀b", 'say "hi"', "tab\there", "a\\b", "x\ny",
        "ñandú ok"]

PARSE_STRS = ["+25", " 25", "25 ", "007", "1_000", "-", "+", "--5", "+-5", "-2147483648", "-2147483649", "99999999999",
              "170141183460469231731687303715884105727", "170141183460469231731687303715884105728",
              "-170141183460469231731687303715884105728", "-170141183460469231731687303715884105729",
              "340282366920938463463374607431768211456", "ff", "FF", "zz", "Zz", "1F", "-ff", "7fffffff", "80000000",
              "-80000000", "0x", "0xff", "0X1F", "0x10", "-0x10", "0xzz", "0x-5", "255", "256", "-1", "0b", "0b2",
              "0b11111111", "0b100000000", "0b0", "0b+1", "0b-1", "0B101", "+3", "3", "1111111", "11111111",
              "101", "true", "false", "True", "TRUE", " true", "true ", "yes", "t", "1", "3.14159", "25.0", "xyz",
              ".5", "5.", "1E3", "1e-3", "1e+3", "inf", "-inf", "+inf", "NaN", "nan", "infinity", "1e999", "-1e999",
              "1e-999", "0.1", "-0.0", "0.30000000000000004", "9007199254740993", "9007199254740993.0",
              "179769313486231570000000000000000000000000000000000000000000000000000000000000000000000000000000000"
              "000000000000000000000000000000000000000000000000000000000000000000000000000000000000000000000000000"
              "000000000000000000000000000000000000000000000000000000000000000000000000000000000000000000000000000"
              "000000000000", "1.7976931348623157e308", "0.000001", "-12.5", "12.5.1", "1,5", "٣", "２５", "2 5",
              "1e", "e5", "0.1e1", "1f", "B25", "10000000000000000000000"]

RADICES = [0, 1, 2, 8, 10, 16, 36, 37, -1, 2147483647]

INTS = [0, 1, -1, 2, -2, 3, -3, 5, -5, 7, 10, -10, 16, 25, 49, 81, 90, 97, 127, 128, 255, 256, -256, 1000, 46340, 46341,
        -46341, 65535, 65536, 2 ** 30, 2 ** 31 - 1, -(2 ** 31) + 1, -(2 ** 31)]
BIGINTS = [0, 1, -1, 2, -2, 3, 10, -10, 25, 255, 256, 65535, 2 ** 31 - 1, 2 ** 31, -(2 ** 31), -(2 ** 31) - 1, 2 ** 32,
           2 ** 31 + 1, 2 ** 31 + 3, 2 ** 32 - 1, 2 ** 32 - 3, 0xC0000001, 0xC0000003,
           2 ** 32 + 1, 4294967297 * 3, 2 ** 53, 2 ** 53 + 1, 2 ** 62, 2 ** 63 - 1, 2 ** 63, -(2 ** 63), 2 ** 64, 10 ** 18,
           3037000499, 3037000500, 10 ** 30, 13043817825332782212, 13043817825332782213, 2 ** 126, 2 ** 127 - 1,
           -(2 ** 127) + 1, -(2 ** 127)]
BYTES = [0, 1, 2, 3, 5, 9, 10, 13, 15, 16, 34, 65, 90, 97, 127, 128, 200, 254, 255]
FLOATS = [0.0, -0.0, 0.5, -0.5, 1.0, -1.0, 1.5, -1.5, 2.0, -2.0, 2.5, -2.5, 3.5, 3.49999, 0.49999999999999994,
          -0.49999999999999994, 0.1, 2.718281828, -2.718281828, 3.1415, 3.14159265359, 25.0, 49.0, 81.0, 254.5, 255.0,
          255.9, 256.0, -0.9, -1.0e-9, 1000000.5, 2147483647.0, 2147483647.5, 2147483648.0, -2147483648.0, -2147483648.9,
          -2147483649.0, 4503599627370495.5, 4503599627370496.0, 4503599627370497.0, 2.0 ** 53, 2.0 ** 53 + 2,
          2.0 ** 63 - 1024, 2.0 ** 63, -(2.0 ** 63), -(2.0 ** 63) - 2048, 1e19, 1e30, -1e30, math.nextafter(2.0 ** 127, 0),
          2.0 ** 127, -(2.0 ** 127), -math.nextafter(2.0 ** 127, math.inf), 1e39, 1e308, M.DBL_MAX, -M.DBL_MAX, 5e-324,
          2.2250738585072014e-308, 1e-320, math.inf, -math.inf, math.nan]
EXPONENTS = [-2147483648, -2, -1, 0, 1, 2, 3, 7, 8, 30, 31, 32, 62, 63, 64, 126, 127, 128, 1023, 1024, 1075, 2147483647]
POWF_EXPS = [0.0, -0.0, 0.5, -0.5, 1.0, -1.0, 2.0, 3.0, 1.0 / 3, 1.5, 31.0, 63.0, 127.0, 128.0, 1024.0, -1074.0, 1e308,
             math.inf, -math.inf, math.nan]
EXPONENTS_QUICK = [-2147483648, -1, 0, 1, 2, 3, 31, 32, 63, 64, 127, 128, 1024, 2147483647]
POWF_EXPS_QUICK = [0.0, 0.5, -0.5, 1.0, -1.0, 2.0, 1.0 / 3, 63.0, 128.0, 1024.0, math.inf, math.nan]
CONCAT_NUMS = [("int", 0), ("int", 16), ("int", -5), ("int", 2 ** 31 - 1), ("bigint", 2 ** 64), ("bigint", -7),
               ("float", 2.5), ("float", 1.0), ("float", -0.0), ("float", 0.1), ("float", 1e21), ("float", 1e-7),
               ("float", math.inf), ("float", math.nan), ("byte", 0), ("byte", 5), ("byte", 255), ("bool", True),
               ("bool", False)]


def indices_for(s):
    nc, nb = len(s), len(s.encode("utf-8"))
    base = {-1, 0, 1, 2, nc - 1, nc, nc + 1, nb - 1, nb, nb + 1}
    return sorted(base)


def patterns_for(s):
    pats = ["", s, s[:1], s[-1:], s[1:], s[:-1], s + "x", "a", "lo w", "wo", "ow", "é", "本", " ", "aa", "0x", "bca"]
    out = []
    for p in pats:
        if p not in out and not p.endswith("\\"):       # a literal cannot end in a backslash
            out.append(p)
    return out


def catalogue(thorough=False):
    P = []

    def add(method, recv, *args, origin="cat"):
        P.append((method, recv, tuple(args), origin))

    I = lambda v: ("int", v)
    S = lambda v: ("str", v)
    for s in STRS:
        r = S(s)
        add("len", r)
        add("reverse", r)
        add("chars", r)
        idx = indices_for(s)
        for i in idx + [2147483647, -2147483648]:
            add("index", r, I(i))
            add("split", r, I(i))
        # the same built-ins on a LITERAL / `const` receiver with literal arguments (the compiler may evaluate them)
        for form in ("cat:inline", "cat:const"):
            P.append(("len", r, (), form))
            P.append(("reverse", r, (), form))
            for i in range(0, len(s) + 1):
                P.append(("index", r, (I(i),), form))
                P.append(("index_then_len", r, (I(i),), form))
                P.append(("substring", r, (I(0), I(i)), form))
        for i in range(0, len(s) + 1):
            add("index_then_len", r, I(i))
        # bigint indices (the index may be int or bigint): in range, and values whose low 64 bits are in range
        n_ = len(s)
        for i in sorted(set([0, 1, max(n_ - 1, 0), n_, -1, 2 ** 64, 2 ** 64 + 1, 2 ** 64 + max(n_ - 1, 0), 2 ** 65,
                             -(2 ** 64 - 1), -(2 ** 64), 2 ** 127 - 1, -(2 ** 127)])):
            add("index", r, ("bigint", i))
        for a in idx:
            for b in idx:
                add("substring", r, I(a), I(b))
                add("delete", r, I(a), I(b))
        for a, b in ((0, 2147483647), (-2147483648, 0), (2147483647, 2147483647), (-2147483648, -2147483648)):
            add("substring", r, I(a), I(b))
            add("delete", r, I(a), I(b))
        for new in ("", "X", ", you are my", "é"):
            for i in idx + [2147483647, -2147483648]:
                add("insert", r, S(new), I(i))
        for p in patterns_for(s):
            add("contains", r, S(p))
            add("index_of", r, S(p))
        for p in ["", s[:1], s, "a", "aa", "l", "zz", "é", s[-1:]]:
            if p.endswith("\\"):
                continue
            for rep in ("", "!", "aa", p + p):
                add("replace", r, S(p), S(rep))
        for n in (-2147483648, -1, 0, 1, 2, 3, 17):
            add("repeat", r, I(n))
            add("repeat_rev", r, I(n))
        for n in (-(2 ** 64), -1, 0, 1, 2, 5):
            add("repeat", r, ("bigint", n))
            add("repeat_rev", r, ("bigint", n))
        for t in STRS[:8] + ["é", "日本", "x\ny"]:
            add("concat", r, S(t))
        if s in STRS[:8] + ["é", 'say "hi"']:
            for nv in CONCAT_NUMS:
                add("concat", r, nv)
                add("concat_rev", r, nv)
            for nv in CONCAT_NUMS + [("float", 2.0), ("float", 1.5), ("float", 100.25), ("int", 7), ("int", 255), ("int", 1001), ("bigint", 7), ("bigint", 2 ** 40 + 1)]:
                if num_spelling(nv) is not None:
                    for form_ in ("numlit", "bothlit"):
                        add("concat", r, nv, origin="catalogue:" + form_)
                        add("concat_rev", r, nv, origin="catalogue:" + form_)
    add("repeat", S(""), I(2147483647))
    add("repeat", S(""), ("bigint", 2 ** 63 - 1))
    add("repeat", S(""), ("bigint", 2 ** 64))
    add("repeat", S(""), ("bigint", 2 ** 127 - 1))
    add("repeat", S("ab"), I(5000))
    for s in STRS + PARSE_STRS:
        r = S(s)
        for m in ("parse_int", "parse_bigint", "parse_float", "parse_bool", "parse_byte"):
            add(m, r)
        for rad in RADICES:
            add("parse_int_radix", r, I(rad))
            add("parse_bigint_radix", r, I(rad))
    # every radix with its largest digit, one digit too large, and int-range boundaries
    for rad in range(2, 37):
        top = M._DIGITS[rad - 1]
        over = M._DIGITS[rad] if rad < 36 else "{"
        for body in (top, top.upper(), "1" + top, "-" + top + top, over, "1" + over, "10"):
            add("parse_int_radix", S(body), I(rad))
            add("parse_bigint_radix", S(body), I(rad))
        for v in (2 ** 31 - 1, 2 ** 31, -(2 ** 31), -(2 ** 31) - 1, 2 ** 127 - 1, 2 ** 127, -(2 ** 127), -(2 ** 127) - 1):
            t = to_radix(v, rad)
            add("parse_int_radix", S(t), I(rad))
            add("parse_bigint_radix", S(t), I(rad))
    nums = [("int", v) for v in INTS] + [("bigint", v) for v in BIGINTS] + [("byte", v) for v in BYTES] + \
           [("float", v) for v in FLOATS]
    for r in nums:
        for m in ("to_int", "to_bigint", "to_byte", "to_float", "abs", "sqrt", "to_str"):
            add(m, r)
        for e in (EXPONENTS if thorough else EXPONENTS_QUICK):
            add("pow", r, I(e))
        for y in (POWF_EXPS if thorough else POWF_EXPS_QUICK):
            add("powf", r, ("float", y))
        if r[0] == "float":
            for m in ("floor", "ceil", "round", "ipart", "fpart"):
                add(m, r)
    for b in range(256):
        add("to_ascii", ("byte", b))
        if b not in BYTES:                           # the BYTES members already have these probes
            for m in ("to_int", "to_bigint", "to_byte", "to_float", "abs", "to_str"):
                add(m, ("byte", b))
    # int/byte pow: the complete small square (exactness of every in-range power)
    for base in range(-12, 13):
        for e in range(0, 40 if thorough else 34):
            add("pow", I(base), I(e))
    for base in (2, 3, 10, 15, 16, 255):
        for e in range(0, 20):
            add("pow", ("byte", base), I(e))
    for base in (2, -2, 3, 10, 2 ** 32, 2 ** 63, -(2 ** 63)):
        for e in range(0, 130 if base in (2, -2) else 42):
            add("pow", ("bigint", base), I(e))
    # rounding family around every half and integer near zero
    k = -4.0
    while k <= 4.0:
        for d in (0.0, math.ulp(k) if k else 5e-324, -math.ulp(k) if k else -5e-324):
            for m in ("floor", "ceil", "round", "ipart", "fpart", "to_int", "to_byte", "to_bigint"):
                add(m, ("float", k + d))
        k += 0.5
    seen, out = set(), []
    for p in P:
        key = core.h([p[0], enc(p[1]), [enc(a) for a in p[2]], p[3] if ":" in p[3] else ""])
        if key not in seen:
            seen.add(key)
            out.append(p)
    return out


def to_radix(v, rad):
    neg, v = v < 0, abs(v)
    ds = ""
    while True:
        ds = M._DIGITS[v % rad] + ds
        v //= rad
        if v == 0:
            break
    return ("-" if neg else "") + ds


# ----------------------------------------------------------------------------- seeded random probes

ASCII_ALPHA = "abcdefghijklmnopqrstuvwxyzABCDEFGHIJKLMNOPQRSTUVWXYZ0123456789      _-+.,;:!?()[]{}<>/|~^*#@$%&='`\"\\\t"
WIDE_ALPHA = "éßñüøλЖ日本語한€😀𝄞"


def rnd_str(rng, maxlen=12, wide=None):
    n = rng.choice([0, 1, 1, 2, 3, 4, 5, 6, 8, 10, maxlen])
    wide = rng.random() < 0.2 if wide is None else wide
    chars = []
    for _ in range(n):
        if wide and rng.random() < 0.35:
            chars.append(rng.choice(WIDE_ALPHA))
        else:
            chars.append(rng.choice(ASCII_ALPHA))
    s = "".join(chars)
    while s.endswith("\\"):          # a literal cannot end in a backslash
        s = s[:-1]
    return s


def rnd_int(rng):
    c = rng.random()
    if c < 0.3:
        return rng.randint(-20, 20)
    if c < 0.5:
        return rng.choice([1, -1]) * (2 ** rng.randint(0, 31)) + rng.randint(-2, 2)
    v = rng.getrandbits(rng.randint(1, 31))
    return -v if rng.random() < 0.4 else v


def clamp(v, lo, hi):
    return max(lo, min(hi, v))


def rnd_bigint(rng):
    c = rng.random()
    if c < 0.2:
        return rng.randint(-300, 300)
    if c < 0.45:
        return clamp(rng.choice([1, -1]) * (2 ** rng.randint(0, 127)) + rng.randint(-2, 2), M.I128_MIN, M.I128_MAX)
    v = rng.getrandbits(rng.randint(1, 127))
    return -v if rng.random() < 0.4 else v


def rnd_float(rng):
    import struct
    c = rng.random()
    if c < 0.25:
        return rng.randint(-2000, 2000) / rng.choice([1, 2, 4, 8, 10, 3])
    if c < 0.4:
        return float(rng.choice([1, -1]) * (2 ** rng.randint(0, 130))) + rng.choice([0.0, 0.5, -0.5, 1.0])
    if c < 0.55:
        return rng.uniform(-1e6, 1e6)
    if c < 0.65:
        return rng.choice([1, -1]) * 10.0 ** rng.randint(-30, 45) * rng.random()
    if c < 0.7:
        return rng.choice([math.inf, -math.inf, math.nan, 0.0, -0.0])
    return struct.unpack(">d", struct.pack(">Q", rng.getrandbits(64)))[0]


def rnd_num(rng, kinds=("int", "bigint", "byte", "float")):
    k = rng.choice(kinds)
    if k == "int":
        return (k, clamp(rnd_int(rng), M.I32_MIN, M.I32_MAX))
    if k == "bigint":
        return (k, rnd_bigint(rng))
    if k == "byte":
        return (k, rng.randint(0, 255))
    return (k, rnd_float(rng))


def rnd_numeral(rng, radix):
    n = rng.choice([1, 1, 2, 3, 5, 8, 10, 12, 20, 32, 40])
    body = "".join(rng.choice(M._DIGITS[:radix]) for _ in range(n))
    if rng.random() < 0.3:
        body = body.upper()
    c = rng.random()
    if c < 0.12:                                   # one foreign character
        k = rng.randint(0, len(body))
        body = body[:k] + rng.choice(M._DIGITS[radix:] + " .+-_xg{") + body[k:]
    if rng.random() < 0.3:
        body = "-" + body
    return body


def rnd_probe(rng):
    I = lambda v: ("int", v)
    S = lambda v: ("str", v)
    m = rng.choice(STATEMENT_METHODS)
    if m in ("len", "reverse", "chars"):
        return (m, S(rnd_str(rng, 16)), (), "rnd")
    if m == "index_then_len":
        s = rnd_str(rng)
        return (m, S(s), (I(rng.randint(0, len(s) + 1)),), "rnd")
    if m in ("index", "split"):
        s = rnd_str(rng)
        return (m, S(s), (I(rng.randint(-2, len(s.encode()) + 2)),), "rnd")
    if m in ("substring", "delete"):
        s = rnd_str(rng)
        n = len(s.encode())
        a = rng.randint(-1, n + 1)
        b = rng.randint(a, n + 1) if rng.random() < 0.75 else rng.randint(-1, n + 1)
        return (m, S(s), (I(a), I(b)), "rnd")
    if m == "insert":
        s = rnd_str(rng)
        return (m, S(s), (S(rnd_str(rng, 5)), I(rng.randint(-1, len(s.encode()) + 1))), "rnd")
    if m in ("contains", "index_of", "replace"):
        s = rnd_str(rng, 16)
        if s and rng.random() < 0.6:
            a = rng.randint(0, len(s) - 1)
            p = s[a:rng.randint(a, len(s))]
        else:
            p = rnd_str(rng, 3, wide=False)
        if m == "replace":
            if p == "" and rng.random() < 0.8:
                p = s[:1] or "q"
            return (m, S(s), (S(p.rstrip("\\")), S(rnd_str(rng, 4))), "rnd")
        return (m, S(s), (S(p.rstrip("\\")),), "rnd")
    if m in ("parse_int", "parse_bigint", "parse_byte"):
        c = rng.random()
        if m == "parse_byte" and c < 0.5:
            t = rng.choice(["0b" + format(rng.getrandbits(rng.randint(1, 10)), "b"), str(rng.randint(-5, 300)),
                            "0b" + rnd_numeral(rng, 3)])
        elif c < 0.85:
            t = rnd_numeral(rng, 10)
        else:
            t = rnd_str(rng, 6, wide=False).rstrip("\\")
        return (m, S(t), (), "rnd")
    if m in ("parse_int_radix", "parse_bigint_radix"):
        rad = rng.choice(list(range(2, 37)) * 3 + [0, 1, 37, 38, -1, -16, 100])
        t = rnd_numeral(rng, clamp(rad, 2, 36))
        return (m, S(t), (I(rad),), "rnd")
    if m == "parse_float":
        c = rng.random()
        if c < 0.5:
            t = "%s%d.%s" % (rng.choice(["", "-"]), rng.getrandbits(rng.randint(1, 70)),
                             "".join(rng.choice("0123456789") for _ in range(rng.randint(1, 25))))
        elif c < 0.8:
            t = repr(rnd_float(rng))
        elif c < 0.9:
            t = str(rnd_int(rng))
        else:
            t = rnd_str(rng, 6, wide=False).rstrip("\\")
        return (m, S(t), (), "rnd")
    if m == "parse_bool":
        t = rng.choice(["true", "false", "True", "FALSE", "tru", "truee", " false", "0", "1", "", "t", "no"])
        return (m, S(t), (), "rnd")
    if m in ("repeat", "repeat_rev"):
        s = rnd_str(rng, 6)
        n = rng.randint(-2, 40)
        return (m, S(s), ((rng.choice(["int", "bigint"]), n),), "rnd")
    if m == "concat":
        s = rnd_str(rng, 8)
        if rng.random() < 0.5:
            return (m, S(s), (S(rnd_str(rng, 8)),), "rnd")
        return (m, S(s), (rnd_num(rng),), "rnd")
    if m == "concat_rev":
        return (m, S(rnd_str(rng, 8)), (rnd_num(rng),), "rnd")
    if m in ("to_int", "to_bigint", "to_byte", "to_float", "abs", "sqrt", "to_str"):
        return (m, rnd_num(rng), (), "rnd")
    if m == "pow":
        r = rnd_num(rng)
        c = rng.random()
        e = rng.randint(-3, 12) if c < 0.5 else (rng.randint(0, 140) if c < 0.9 else rnd_int(rng))
        if r[0] != "float" and rng.random() < 0.5:
            # in-range results: small base, exponent chosen so that the power fits a bigint
            b = rng.randint(-40, 40)
            r = (r[0], b if r[0] != "byte" else abs(b))
            e = rng.randint(0, 24)
        return (m, r, (I(clamp(e, M.I32_MIN, M.I32_MAX)),), "rnd")
    if m == "powf":
        y = rng.choice([0.5, 2.0, -1.0, 1.0 / 3, 0.0, 1.5, 10.0]) if rng.random() < 0.5 else rnd_float(rng)
        return (m, rnd_num(rng), (("float", y),), "rnd")
    if m in ("floor", "ceil", "round", "ipart", "fpart"):
        return (m, ("float", rnd_float(rng)), (), "rnd")
    if m == "to_ascii":
        return (m, ("byte", rng.randint(0, 255)), (), "rnd")
    raise ValueError(m)


# ----------------------------------------------------------------------------- driver

def make_items(probes):
    batchable, solos = [], []
    for p in probes:
        (solos if spec_of(p).may_fail() else batchable).append(p)
    items = [("batch", batchable[i:i + BATCH]) for i in range(0, len(batchable), BATCH)]
    items += [("solo", solos[i:i + SOLO_CHUNK]) for i in range(0, len(solos), SOLO_CHUNK)]
    return items, len(batchable), len(solos)


# ----------------------------------------------------------------------------- out-of-domain calls inside callbacks (round 7)
# "Outside the domain the program stops with a failure rather than continuing": also when the built-in is called from a
# function that `map` / `filter` runs per element.  (id, failing expression over captured variables, result type)
CB_AFTER = "@@C14-AFTER-CALLBACK@@"
CB_DECLS = ('bf = 3000000000.5\nsx = "xy"\ns10 = "10"\nn300 = 300\nb2 = B2\nbig = B99999999999\nneg1 = -1\n'
            'lq: [int...] = [1, 2, 3]\n')
CB_FAILS = [("to_int_of_large_float", "bf.to_int()", "int"), ("substring_past_end", "sx.substring(0, 3)", "str"),
            ("parse_int_radix_37", "(s10.parse_int_radix(37)) or 0", "int"), ("to_byte_of_300", "n300.to_byte()", "byte"),
            ("pow_overflow", "b2.pow(200)", "bigint"), ("insert_past_end", "sx.insert(\"x\", 9)", "str"),
            ("delete_past_end", "sx.delete(1, 9)", "str"), ("to_int_of_large_bigint", "big.to_int()", "int"),
            ("pow_negative_exponent", "b2.pow(neg1)", "bigint")]


def callback_scripts():
    out = []
    for cid, expr, ty in CB_FAILS:
        out.append(("callback:map:%s" % cid, CB_DECLS + "rq = lq.map(fn(x: int) -> %s {\n  return %s\n})\nprint \"%s\"\nprint rq\n" % (ty, expr, CB_AFTER)))
        out.append(("callback:filter:%s" % cid, CB_DECLS + "rq = lq.filter(fn(x: int) -> bool {\n  yq = %s\n  return x > 1\n})\nprint \"%s\"\nprint rq\n" % (expr, CB_AFTER)))
        out.append(("callback:map_via_helper:%s" % cid, CB_DECLS + "hq = fn() -> %s {\n  return %s\n}\nrq = lq.map(fn(x: int) -> %s {\n  return hq()\n})\nprint \"%s\"\nprint rq\n" % (ty, expr, ty, CB_AFTER)))
        out.append(("callback:control_direct:%s" % cid, CB_DECLS + "yq = %s\nprint \"%s\"\n" % (expr, CB_AFTER)))
    return out


def work_callback(item):
    cid, src = item
    r, _, _ = core.run_program({"main.ms": src}, cpu=10)
    res = {"id": cid, "files": {"main.ms": src}, "run": r.brief()}
    if r.cls in ("wall_timeout", "cpu_timeout", "spawn_error"):
        res["verdict"] = "inconclusive"
    elif core.compile_rejected(r):
        res["verdict"] = "rejected"
    elif r.cls == "ok" or CB_AFTER in r.out:
        res["verdict"] = "continued"
    else:
        res["verdict"] = "stopped"
    return res


def run(ctx):
    out = core.Outcome()
    cat = catalogue(thorough=not ctx.quick)
    rng = ctx.rng("random-probes")
    rnd = [rnd_probe(rng) for _ in range(ctx.n(6000, 300000))]
    items, n_batchable, n_solo = make_items(cat + rnd)
    results = core.pmap(work, items, chunksize=2)
    agg = {"probes_compared": 0, "agreements": 0, "expected_failures_confirmed": 0, "catalogue_probes": len(cat),
           "random_probes": len(rnd), "probes_batched": n_batchable, "probes_run_alone": n_solo,
           "compiler_rejected": 0}
    per_method, open_obs, fail_classes, kinds = {}, {}, {}, {}
    unit_examples = {}
    rejected_examples, prefix_obs, devs = [], [], []
    for status, res in results:
        if status != "ok":
            out.inconclusive.append(str(res)[-500:])
            continue
        out.evaluations += res["runs"]
        agg["probes_compared"] += res["probes"]
        agg["agreements"] += res["agree"]
        agg["expected_failures_confirmed"] += res["fail_confirmed"]
        agg["compiler_rejected"] += len(res["rejected"])
        out.inconclusive.extend(res["inconclusive"])
        out.distinct.update(res["hashes"])
        for k, v in res["per_method"].items():
            per_method[k] = per_method.get(k, 0) + v
        for k, v in res["fail_classes"].items():
            fail_classes[k] = fail_classes.get(k, 0) + v
        for k, v in res["kinds"].items():
            kinds[k] = kinds.get(k, 0) + v
        for mth, rd in res["open"].items():
            d = open_obs.setdefault(mth, {})
            for k, v in rd.items():
                d[k] = d.get(k, 0) + v
        for mth, ex in res["unit_examples"].items():
            d = unit_examples.setdefault(mth, {})
            for k, v in ex.items():
                d.setdefault(k, v)
        for r in res["rejected"]:
            if len(rejected_examples) < 5:
                rejected_examples.append(r)
        for t in res["prefix_obs"]:
            if len(prefix_obs) < 40 and t not in prefix_obs:
                prefix_obs.append(t)
        if res["sample"] and len(out.samples) < 4 and res["sample"]["method"] not in [s["method"] for s in out.samples]:
            out.samples.append(res["sample"])
        devs.extend(res["deviations"])
    cb_cov = {"scripts": 0, "stopped": 0, "rejected_by_compiler": []}
    for status, res in core.pmap(work_callback, callback_scripts(), chunksize=4):
        if status != "ok":
            out.inconclusive.append(str(res)[-300:])
            continue
        cb_cov["scripts"] += 1
        if res["verdict"] == "inconclusive":
            out.inconclusive.append("callback script %s: timeout" % res["id"])
        elif res["verdict"] == "rejected":
            cb_cov["rejected_by_compiler"].append(res["id"])
        elif res["verdict"] == "stopped":
            cb_cov["stopped"] += 1
            out.evaluations += 1
            out.distinct.add(core.h(["callback", res["id"]]))
        else:
            out.evaluations += 1
            out.violations.append(core.Violation("C14:%s:continued_after_domain_error" % res["id"],
                                                 "an out-of-domain built-in call inside a list callback did not stop the program (%s)" % res["id"],
                                                 {"files": res["files"], "run": res["run"]}))
    agg["out_of_domain_calls_inside_callbacks"] = cb_cov
    # one violation per signature; witness = the catalogue case with the shortest program
    by_sig = {}
    for d in devs:
        by_sig.setdefault(d["signature"], []).append(d)
    for sig in sorted(by_sig):
        ds = sorted(by_sig[sig], key=lambda d: (d["source"] != "cat", len(d["call"]), d["call"]))
        w = ds[0]
        witness = {"call": w["call"], "probe": w["probe"], "expected": w["expected"],
                   "declared_by_model": w["declared_by_model"], "declared_by_typeof": w["declared_by_typeof"],
                   "observed": w["observed"], "failure": w["failure"], "run": w["run"],
                   "cases_with_this_signature": len(ds),
                   "from_catalogue": sum(1 for d in ds if d["source"] == "cat"),
                   "other_examples": [{"call": d["call"], "expected": d["expected"], "observed": d["observed"]}
                                      for d in ds[1:8]],
                   "files": {"main.ms": w["src"]}}
        out.violations.append(core.Violation(
            sig, "%s: expected %s, observed %s (%d cases)" % (w["call"], " | ".join(w["expected"])[:160],
                                                              w["observed"][:120], len(ds)), witness))
    # one index unit per method: on multi-byte text both the character and the UTF-8 byte reading are accepted, but
    # all results of ONE method must fit ONE of them (a bound counted in characters next to a cut made in bytes
    # fits neither).  A result both readings agree on, and a failure, are compatible with either.
    unit_of_method = {}
    for mth in sorted(open_obs):
        names = [set(k.split("|")) for k in open_obs[mth]
                 if k and set(k.split("|")) & {"chars", "bytes"} and "failure" not in k.split("|")]
        if not names:
            continue
        fits = {"chars", "bytes"}
        for nset in names:
            fits &= (nset & {"chars", "bytes"})
        unit_of_method[mth] = sorted(fits)
        if not fits:
            ex = unit_examples.get(mth, {})
            out.violations.append(core.Violation(
                "C14:%s:inconsistent_index_unit" % mth,
                "%s: some results only fit offsets counted in characters, others only offsets counted in UTF-8 bytes"
                % mth, {"method": mth, "readings_fitted(count)": open_obs[mth], "examples": ex,
                        "files": {"note.txt": json.dumps(ex, indent=1, ensure_ascii=False)}}))
    agg["index_unit_fitting_all_results_of_the_method"] = unit_of_method
    missing = [m for m in STATEMENT_METHODS if not any(k.startswith(m + ":") for k in per_method)]
    agg.update({"probes_per_method_and_receiver_kind": dict(sorted(per_method.items())),
                "methods_without_a_compared_probe": missing,
                "open_readings_taken_by_the_implementation": open_obs,
                "hex_prefix_observations": prefix_obs,
                "failure_classes_of_stopping_probes": fail_classes,
                "runtime_kinds_observed": kinds,
                "deviating_probes": len(devs),
                "complete_enumerations": ["to_ascii, to_int, to_bigint, to_byte, to_float, abs, to_str over all 256 bytes",
                                          "pow on int bases -12..12 x exponents 0..33 (0..39 thorough)"],
                "rejected_examples": rejected_examples,
                "avoidance_rules": ["none: random probes use the catalogue's signatures C14:<method>:<receiver kind>:<class>; "
                                    "repeat counts are kept <= 40 (and 5000 once) so that no probe needs gigabytes"]})
    out.coverage.update(agg)
    out.rule = ("probe = one call `E` of a built-in with receiver and arguments bound to variables, observed through "
                "`print typeof (E)` + typed `print E`. Catalogue (identical for every seed): every method of the "
                "statement x boundary receivers/arguments (%d probes; strings %d + parse texts %d, radices %s, "
                "ints %d, bigints %d, all 256 bytes, floats %d, pow exponents %s) + %d seeded random probes. "
                "evaluations = executions of the binary (batches of <= %d value-expecting probes, one execution per "
                "failure-admitting probe, one re-execution per deviation). Non-trivial/distinct = probes whose model has "
                "exactly one reading (no open choice) that agreed, distinct by (method, receiver, arguments)."
                % (len(cat), len(STRS), len(PARSE_STRS), RADICES, len(INTS), len(BIGINTS), len(FLOATS), EXPONENTS_QUICK if ctx.quick else EXPONENTS,
                   len(rnd), BATCH))
    out.assumptions = list(M.ASSUMPTIONS) + ["dev-profile build (integer overflow panics count as 'stops with a failure')"]
    out.exhaustive = False
    if agg["probes_compared"] and agg["compiler_rejected"] > 0.02 * (agg["probes_compared"] + agg["compiler_rejected"]):
        out.observed_nothing = "%d probes rejected by the compiler: generator out of the language" % agg["compiler_rejected"]
    if out.evaluations == 0 or agg["probes_compared"] == 0:
        out.observed_nothing = "no probe executed"
    elif missing:
        out.observed_nothing = "no compared probe for: %s" % ", ".join(missing)
    return out


def replay(path):
    with open(os.path.join(path, "case.json")) as f:
        case = json.load(f)
    w = case["witness"]
    pr = w["probe"]
    probe = (pr[0], dec(pr[1]), tuple(dec(a) for a in pr[2]), "replay")
    spec = spec_of(probe)
    sol = solo(probe)
    print("call:     ", human(probe))
    print("program:\n" + sol["src"])
    print("expected: ", " | ".join(spec.describe()), " declared:", spec.declared)
    print("observed: ", obs_text(sol["observed"]), " typeof:", sol["static"], " status:", sol["status"])
    if sol["status"] not in ("ok", "stopped"):
        print("INCONCLUSIVE")
        return 2
    cls = judge(probe, spec, sol["static"], sol["observed"])
    print("AGREES" if cls is None else "DIFFERS (%s)" % signature(probe, cls))
    return 0 if cls is None else 1
