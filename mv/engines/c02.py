"""C02 — static typing is sound: accepted programs never hit a dynamic type error, and every non-nil
value has the kind of the static type `typeof` reports.

Workload: type-directed random programs (mv/tgen.py) + a boundary catalogue.  Monitors: H-KIND typed
printing (run-time kind tree of every printed value) and the failure taxonomy of core.classify_failure."""
import json
import os
import re

from .. import core, tgen

MASK_NUM = re.compile(r"\d+")
MASK_Q = re.compile(r"`[^`]*`|\"[^\"]*\"|'[^']*'")


def mask(msg):
    msg = MASK_Q.sub("`_`", msg)
    msg = re.sub(r"\(\d+\)", "(N)", msg)
    msg = MASK_NUM.sub("N", msg)
    return msg[:160]


def analyse(text, res, aliases, classes):
    """Returns dict(problems=[(class, detail)], pairs=n, kinds=set, accepted=bool)."""
    out = res.out
    if core.compile_rejected(res):
        return {"accepted": False}
    if res.cls == "panic" and "@@RUN@@" not in out:
        # died inside the compiler: not an accepted program (C16's business)
        return {"accepted": False, "compiler_panic": core.first_line_with(res.err, "panicked at")}
    problems = []
    if res.cls in ("cpu_timeout", "wall_timeout", "spawn_error"):
        return {"accepted": True, "inconclusive": res.cls}
    if res.cls != "ok":
        cls = core.classify_failure(res)
        if cls[0] == "internal":
            problems.append(("dynamic_type_error", mask(cls[1])))
    lines = res.lines()
    pairs = 0
    kinds = set()
    i = 0
    while i < len(lines) - 1:
        l = lines[i]
        if l.startswith("«Str» @T "):
            static_text = l[len("«Str» @T "):]
            v = lines[i + 1]
            m = re.match(r"«(.*?)» ", v)
            if m and not v.startswith("«Str» @T "):
                st = tgen.parse_type(static_text, aliases, classes)
                kind = tgen.parse_kind(m.group(1))
                if st is not None:
                    ok = tgen.conforms(st, kind)
                    if ok is not None:
                        pairs += 1
                        kinds.add((static_text if len(static_text) < 30 else static_text[:30], m.group(1)[:30]))
                        if ok is False:
                            problems.append(("kind_mismatch", "static `%s` but run-time kind %s" % (static_text, m.group(1)[:60])))
                i += 2
                continue
        i += 1
    return {"accepted": True, "problems": problems, "pairs": pairs, "kinds": kinds, "cls": res.cls}


# ----------------------------------------------------------------------------- boundary catalogue
# (id, source).  Each must be accepted-and-sound or rejected; every `print "@T " + typeof (e)` / `print e`
# pair is checked like in the random programs.
def T(e):
    return 'print "@T " + typeof (%s)\nprint %s\n' % (e, e)


CATALOGUE = [
    ("from_counter_bigint", "from B1 to B3, n {\n" + T("n") + "}\n"),
    ("from_counter_float", "from 1.5 to 3 step 1, n {\n" + T("n") + "}\n"),
    ("from_counter_byte", "from 0b1 to 0b11, n {\n" + T("n") + "}\n"),
    ("from_counter_int", "from 1 to 3, n {\n" + T("n") + "}\n"),
    ("from_counter_bigint_used_as_int", "from B1 to B2, n {\nx: int = n\n" + T("x * 2147483647") + "}\n"),
    ("bitand_byte_byte", "a = 0b101\nb = 0b110\n" + T("a & b") + T("a | b") + T("a xor b")),
    ("bitand_int_bigint", "a = 5\nb = B6\n" + T("a & b") + T("b | a")),
    ("bitand_int_byte", "a = 5\nb = 0b110\n" + T("a & b") + T("b & a")),
    ("shift_kinds", "a = 1\nb = 0b10\nc = B3\n" + T("a << b") + T("c << a") + T("b << a") + T("c >> b")),
    ("index_result_as_list_element", "const a = [1, 2]\nc = 7\nr = [a[0], c][0] - 1\n" + T("r")),
    ("field_as_list_element", "class K {\n f: int\n constructor(self, a: int) {\n  self.f = a\n }\n}\no = K(5)\nl: [int...] = [o.f, 2]\nl[0] += 1\n" + T("l")),
    ("negated_bigint_literal", "x = -B99999999999\n" + T("x")),
    ("negated_bigint_small", "x = -B5\n" + T("x") + T("x + 1")),
    ("parse_int_plus", "x = \"5\".parse_int() + 1\n" + T("x")),
    ("parse_int_var_plus", "o: int? = \"5\".parse_int()\n" + T("o + 1") + T("o * 2") + T("-o")),
    ("or_then_arith", "o: int? = \"12\".parse_int()\na = (o) or 0\n" + T("a + 1") + T("-a") + T("a / 2")),
    ("index_of_then_arith", "l: [int...] = [4, 5]\ni = (l.index_of(5)) or 9\n" + T("i + 1")),
    ("map_absent_key_opassign", "m = map[str, int] { \"a\": 1 }\nm[\"zz\"] += 1\n" + T("m")),
    ("map_present_key_opassign", "m = map[str, int] { \"a\": 1 }\nm[\"a\"] += 1\n" + T("m")),
    ("index_result_in_and", "l: [bool...] = [true, false]\nf = fn(k: int) -> bool {\n return l[k]\n}\nb = f(0) && f(1)\n" + T("b")),
    ("index_result_returned", "l: [int...] = [4, 5]\nf = fn() -> int {\n return l[1]\n}\n" + T("f() + 1")),
    ("index_result_in_or", "l: [bool...] = [true, false]\nb = l[1] || l[0]\n" + T("b")),
    ("bool_with_byte_cmp", "a = 0b1\nb = 1\n" + T("a == b") + T("a < b")),
    ("int_float_cmp", "a = 1\nb = 1.0\n" + T("a == b") + T("a <= b")),
    ("str_plus_any", "s = \"a\"\n" + T("s + 1") + T("s + 1.5") + T("s + true") + T("1 + s") + T("s + [1]")),
    ("str_times_int", "s = \"ab\"\nn = 2\n" + T("s * n")),
    ("optional_reassign", "x: int? = nil\nx = 5\n" + T("x") + "x = nil\n" + T("x")),
    ("optional_list_elements", "l: [int?...] = [1, nil]\n" + T("l") + "r = l[0]\n" + T("r")),
    ("fixed_list", "const l = [1, \"a\", 2.5]\n" + T("l") + "a = l[0]\n" + T("a") + "b = l[1]\n" + T("b")),
    ("fixed_list_unpack", "const l = [1, \"a\"]\n[a, b] = l\n" + T("a") + T("b")),
    ("map_lookup_type", "m = map[int, str] { 1: \"a\" }\nr = m[1]\n" + T("r") + "q = m[2]\n" + T("q")),
    ("map_keys_values", "m = map[int, str] { 1: \"a\" }\n" + T("m.keys()") + T("m.values()") + T("m.len()")),
    ("generic_map_callback", "l: [int...] = [1, 2]\nf = fn(a: int) -> str {\n return \"v\" + a\n}\nr = l.map(f)\n" + T("r")),
    ("filter_callback", "l: [int...] = [1, 2, 3]\nf = fn(a: int) -> bool {\n return a > 1\n}\nr = l.filter(f)\n" + T("r")),
    ("self_typed_param", "class D {\n n: str\n constructor(self, n: str) {\n  self.n = n\n }\n fn j(self, o: Self) -> Self {\n  return Self(self.n + o.n)\n }\n}\na = D(\"x\")\nb = D(\"y\")\nc = a.j(b)\n" + T("c") + T("c.n")),
    ("alias_of_int", "type Al int\nx: Al = 5\n" + T("x") + T("x + 1")),
    ("alias_of_str_list", "type Al [str...]\nx: Al = [\"a\"]\n" + T("x")),
    ("if_returns_else_not", "f = fn(a: int) -> int {\n if a > 1 {\n  return 1\n } else {\n  q = 1\n }\n return 2\n}\n" + T("f(0)") + T("f(5)")),
    ("pow_kinds", "a = 2\nb = B2\nc = 0b10\n" + T("a.pow(3)") + T("b.pow(3)") + T("c.pow(2)")),
    ("to_conversions", "a = 7\n" + T("a.to_byte()") + T("a.to_float()") + T("a.to_bigint()") + T("a.to_str()")),
    ("sqrt_kinds", "a = 16\nb = B16\nc = 16.0\n" + T("a.sqrt()") + T("b.sqrt()") + T("c.sqrt()")),
    ("abs_kinds", "a = -16\nb = -B16\nc = -16.5\n" + T("a.abs()") + T("b.abs()") + T("c.abs()")),
    ("div_kinds", "a = 7\nb = 2\nc = 2.0\nd = B2\ne = 0b10\n" + T("a / b") + T("a / c") + T("a / d") + T("a / e") + T("e / e") + T("e / a")),
    ("rem_kinds", "a = 7\nc = 2.0\nd = B2\ne = 0b10\n" + T("a % c") + T("a % d") + T("a % e") + T("d % a")),
    ("unary_minus_kinds", "a = 7\nc = 2.5\nd = B2\n" + T("-a") + T("-c") + T("-d")),
    ("closure_captured_kinds", "a = 7\nb = B2\nf = fn() -> bigint {\n return a + b\n}\n" + T("f()")),
    ("callback_captured_operand", "k = 3\nl: [int...] = [1, 2]\nf = fn(a: int) -> int {\n return a * k\n}\n" + T("l.map(f)")),
    ("unwrap_assign_expr", "o: int? = 5\nx: int? = nil\nif x ?= o {\n" + T("x") + "}\n"),
    ("get_on_present", "o: int? = 5\n" + T("get o") + T("(get o) + 1")),
    ("str_index", "s = \"héllo\"\nr = s[1]\n" + T("r")),
    ("chars", "s = \"ab\"\n" + T("s.chars()")),
    ("split", "s = \"ab\"\n" + T("s.split(1)")),
    ("parse_kinds", T('"1".parse_int()') + T('"1".parse_bigint()') + T('"1.5".parse_float()') + T('"true".parse_bool()') + T('"0b1".parse_byte()')),
    ("opt_str_methods", "s: str? = \"ab\"\n" + T("(get s).len()")),
    ("class_field_kinds", "class K {\n a: int\n b: [str...]\n c: float?\n constructor(self) {\n  self.a = 1\n  self.b = [\"x\"]\n  self.c = nil\n }\n}\no = K()\n" + T("o.a") + T("o.b") + T("o.c") + "o.c = 2.5\n" + T("o.c")),
    ("bin_op_assign_kinds", "a = 1\na += 2\n" + T("a") + "f = 1.5\nf *= 2\n" + T("f") + "s = \"a\"\ns += 1\n" + T("s") + "g = B1\ng += 1\n" + T("g")),
    ("float_int_opassign", "a = 1.5\na += 1\n" + T("a")),
    ("ternary_like_or", "o: str? = nil\n" + T("(o) or \"d\"")),
    ("nested_list_index", "l: [[int...]...] = [[1, 2], [3]]\nr = l[0]\n" + T("r") + "q = r[1]\n" + T("q")),
    ("list_of_class", "class K {\n a: int\n constructor(self, a: int) {\n  self.a = a\n }\n}\nl: [K...] = [K(1), K(2)]\nr = l[1]\n" + T("r.a")),
    ("list_with_optional_class", "class K {\n a: int\n constructor(self, a: int) {\n  self.a = a\n }\n}\nl: [K?...] = [K(1), nil]\nr = l[0]\n" + T("(get r).a")),
    ("fn_typed_var", "f: fn(int) -> int = fn(a: int) -> int {\n return a + 1\n}\n" + T("f") + T("f(1)") + T("f.is_closure()")),
    ("typeof_named_undeclared", "x = 5\nprint typeof -x\n"),
]


# Escaping closures that mention a captured variable exactly once, in each syntactic position: the variable
# must be captured (otherwise "load before store" = an undefined variable in an accepted program).
def _cap(name, decls, body, rt, call_args=""):
    src = "mk = fn() -> (fn() -> %s) {\n" % rt
    for d in decls:
        src += "  %s\n" % d
    src += "  return fn() -> %s {\n" % rt
    for b in body:
        src += "    %s\n" % b
    src += "  }\n}\ncq = mk()\n" + T("cq()") + T("cq()")
    return ("capture_" + name, src)


_KCLS = "class Kc {\n f: int\n constructor(self, a: int) {\n  self.f = a\n }\n fn addv(self, a: int) -> int {\n  return a + self.f\n }\n}\n"
CAPTURE = [
    _cap("binop_operand", ["v = 5"], ["return v + 1"], "int"),
    _cap("binop_right", ["v = 5"], ["return 1 + v"], "int"),
    _cap("unary_minus", ["v = 5"], ["return -v"], "int"),
    _cap("not", ["v = true"], ["return !v"], "bool"),
    _cap("or_fallback", ["v = 7", "o: int? = nil"], ["return (o) or v"], "int"),
    _cap("or_primary", ["o: int? = 3"], ["return (o) or 1"], "int"),
    _cap("get", ["o: int? = 3"], ["return get o"], "int"),
    _cap("nil_test", ["o: int? = 3"], ["return o == nil"], "bool"),
    _cap("unwrap_assign_rhs", ["o: int? = 3"], ["w: int? = nil", "if w ?= o {", "  return get w", "}", "return 0"], "int"),
    _cap("unwrap_assign_target", ["w: int? = nil"], ["if w ?= 4 {", "  return get w", "}", "return 0"], "int"),
    _cap("index_list", ["l: [int...] = [4, 5]"], ["r = l[1]", "return r"], "int"),
    _cap("map_lookup", ["m = map[str, int] { \"a\": 1 }"], ["r = (m[\"a\"]) or 0", "return r"], "int"),
    _cap("call_argument", ["v = 5", "g = fn(a: int) -> int {", "  return a * 2", "}"], ["return g(v)"], "int"),
    _cap("callee", ["g = fn(a: int) -> int {", "  return a * 2", "}"], ["return g(3)"], "int"),
    _cap("method_argument", ["v = 5", "k = Kc(1)"], ["return k.addv(v)"], "int"),
    _cap("method_receiver", ["k = Kc(1)"], ["return k.addv(2)"], "int"),
    _cap("field_read", ["k = Kc(9)"], ["return k.f"], "int"),
    _cap("builtin_argument", ["v = 5", "l: [int...] = [1]"], ["l.push(v)", "return l.len()"], "int"),
    _cap("builtin_receiver", ["s = \"abc\""], ["return s.len()"], "int"),
    _cap("list_literal_element", ["v = 5"], ["q: [int...] = [v, 1]", "return q.len()"], "int"),
    _cap("map_literal_value", ["v = 5"], ["q = map[str, int] { \"a\": v }", "return q.len()"], "int"),
    _cap("str_concat", ["v = 5"], ["return \"n\" + v"], "str"),
    _cap("if_condition", ["v = true"], ["if v {", "  return 1", "}", "return 0"], "int"),
    _cap("while_condition", ["v = false"], ["while v {", "  return 1", "}", "return 0"], "int"),
    _cap("from_bound", ["v = 2"], ["t = 0", "from 0 to v {", "  t += 1", "}", "return t"], "int"),
    _cap("from_step", ["v = 2"], ["t = 0", "from 0 to 4 step v {", "  t += 1", "}", "return t"], "int"),
    _cap("assignment_value", ["v = 5"], ["x = v", "return x"], "int"),
    _cap("typed_assignment_value", ["v = 5"], ["x: int = v", "return x"], "int"),
    _cap("opassign_value", ["v = 5"], ["x = 1", "x += v", "return x"], "int"),
    _cap("opassign_target", ["v = 5"], ["v += 1", "return v"], "int"),
    _cap("modify_target", ["v = 5"], ["modify v = v + 1", "return v"], "int"),
    _cap("index_assign_target", ["l: [int...] = [4, 5]"], ["l[0] = 9", "return l.len()"], "int"),
    _cap("index_assign_value", ["v = 5"], ["q: [int...] = [1]", "q[0] = v", "r = q[0]", "return r"], "int"),
    _cap("field_assign_target", ["k = Kc(1)"], ["k.f = 4", "return 4"], "int"),
    _cap("field_assign_value", ["v = 5", "k = Kc(1)"], ["k.f = v", "return k.f"], "int"),
    _cap("assert", ["v = true"], ["assert v", "return 1"], "int"),
    _cap("print", ["v = 5"], ["print v", "return 1"], "int"),
    _cap("nested_closure", ["v = 5"], ["h = fn() -> int {", "  return v", "}", "return h()"], "int"),
    _cap("comparison", ["v = 5"], ["return v > 2"], "bool"),
    _cap("and_right", ["v = true"], ["return true && v"], "bool"),
    _cap("is_operator", ["k = Kc(1)"], ["j = k", "return j is k"], "bool"),
    _cap("unpack_source", ["const l = [1, 2]"], ["[a, b] = l", "return a + b"], "int"),
    _cap("typeof_operand", ["v = 5"], ["return typeof v"], "str"),
    # the only mention sits in a nested block / in a particular arm of a ladder / next to a same-named local
    _cap("same_named_local_initialised_from_it", ["v = 5"], ["v = v + 1", "return v"], "int"),
    _cap("read_then_same_named_local", ["v = 5"], ["seen = v", "v = seen + 1", "return v"], "int"),
    _cap("same_named_typed_local_initialised_from_it", ["v = 5"], ["v: int = v * 2", "return v"], "int"),
    _cap("then_branch", ["v = 5", "c = true"], ["if c {", "  return v", "}", "return 0"], "int"),
    _cap("else_branch", ["v = 5", "c = false"], ["if c {", "  return 0", "} else {", "  return v", "}"], "int"),
    _cap("else_if_condition", ["v = 5", "c = false"], ["if c {", "  return 0", "} else if v > 1 {", "  return 1", "}", "return 2"], "int"),
    _cap("else_if_branch", ["v = 5", "c = false"], ["if c {", "  return 0", "} else if !c {", "  return v", "}", "return 2"], "int"),
    _cap("final_else_after_else_if", ["v = 5", "c = false"], ["if c {", "  return 0", "} else if c {", "  return 1", "} else {", "  return v", "}"], "int"),
    _cap("final_else_after_two_else_ifs_opassign", ["v = 5", "c = false"], ["if c {", "  return 0", "} else if c {", "  return 1", "} else if c {", "  return 2", "} else {", "  v += 1", "}", "return v"], "int"),
    _cap("while_body", ["v = 5"], ["t = 0", "while t < 1 {", "  t += v", "}", "return t"], "int"),
    _cap("from_body", ["v = 5"], ["t = 0", "from 0 to 2 {", "  t += v", "}", "return t"], "int"),
    _cap("from_lower_bound", ["v = 1"], ["t = 0", "from v to 3 {", "  t += 1", "}", "return t"], "int"),
    # (an index / key that is itself a captured variable — `q[v]` — is refused by the pinned compiler with "`int`
    #  cannot be used as an index here": a rejection of a well-typed program, outside the twenty properties)
    _cap("nested_blocks_depth3", ["v = 5", "c = true"], ["t = 0", "while t < 1 {", "  if c {", "    from 0 to 1 {", "      t += v", "    }", "  }", "}", "return t"], "int"),
    _cap("index_opassign_value", ["v = 5"], ["q: [int...] = [7, 8]", "q[0] += v", "r = q[0]", "return r"], "int"),
    _cap("recursion_argument", ["v = 2"], ["h = fn(n: int) -> int {", "  if n <= 0 {", "    return 0", "  }", "  return self(n - v) + 1", "}", "return h(4)"], "int"),
    _cap("nested_closure_in_else", ["v = 5", "c = false"], ["if c {", "  return 0", "} else {", "  h = fn() -> int {", "    return v", "  }", "  return h()", "}"], "int"),
    _cap("return_in_while_in_if", ["v = 5", "c = true"], ["if c {", "  while c {", "    return v", "  }", "}", "return 0"], "int"),
    _cap("map_literal_key", ["v = \"w\""], ["q = map[str, int] { v: 1 }", "return q.len()"], "int"),
    _cap("map_literal_int_key", ["v = 4"], ["q = map[int, int] { v: 1, 2: v }", "return q.len()"], "int"),
    _cap("method_chain_second_call_argument", ["v = \"l\"", "w = \"L\""], ["t = \"hello\"", "return t.reverse().replace(v, w)"], "str"),
    _cap("method_chain_third_call_argument", ["v = 1"], ["t = \"hello\"", "return t.reverse().reverse().substring(0, v)"], "str"),
    _cap("method_chain_on_object_second_argument", ["v = 5", "k = Kc(1)"], ["j = Kc(2)", "return k.addv(1).pow(1).to_int() + j.addv(1).pow(1).to_int().pow(v).to_int()"], "int"),
    _cap("list_index_of_argument", ["v = 5", "l: [int...] = [4, 5]"], ["return (l.index_of(v)) or 9"], "int"),
    _cap("callback_of_map", ["v = 10", "l: [int...] = [1, 2, 3]"], ["r = l.map(fn(a: int) -> int {", "  return a * v", "})", "return r[2]"], "int"),
    _cap("callback_of_filter", ["v = 2", "l: [int...] = [1, 2, 3]"], ["r = l.filter(fn(a: int) -> bool {", "  return a >= v", "})", "return r.len()"], "int"),
]
CATALOGUE += [(n, (_KCLS + src) if "Kc(" in src else src) for n, src in CAPTURE]

# function-typed holders: what is stored must have the slot's signature (a call through the slot must yield a value)
_FH = ("class Hf {\n cb: fn(int) -> int\n constructor(self) {\n  self.cb = fn(a: int) -> int {\n   return a + 1\n  }\n }\n}\n"
       "hf = Hf()\nf2 = fn(a: int) -> int {\n return a * 2\n}\n")
CATALOGUE += [
    ("fn_typed_field", _FH + "hf.cb = f2\ng = hf.cb\n" + T("g(3)")),
    ("fn_typed_list_element", "f2 = fn(a: int) -> int {\n return a * 2\n}\nl: [fn(int) -> int...] = [f2]\nl[0] = f2\ng = l[0]\n" + T("g(3)")),
    ("fn_typed_map_value", "f2 = fn(a: int) -> int {\n return a * 2\n}\nm = map[str, fn(int) -> int] { \"a\": f2 }\ng = get m[\"a\"]\n" + T("g(3)")),
    # the following are ill-typed if the compiler is right and must then be rejected; if a compiler accepts them the
    # call through the slot has no value / wrong arity => dynamic type error => flagged
    ("void_fn_into_fn_typed_field", _FH + "hf.cb = fn(a: int) {\n print a\n}\ng = hf.cb\nx = g(3)\n" + T("x")),
    ("void_fn_into_fn_typed_list", "f2 = fn(a: int) -> int {\n return a * 2\n}\nl: [fn(int) -> int...] = [f2]\nl[0] = fn(a: int) {\n print a\n}\ng = l[0]\nx = g(3)\n" + T("x")),
    ("void_fn_into_fn_typed_map", "m = map[str, fn(int) -> int] { \"a\": fn(a: int) {\n print a\n} }\ng = get m[\"a\"]\nx = g(3)\n" + T("x")),
    ("wrong_arity_fn_into_field", _FH + "hf.cb = fn() -> int {\n return 1\n}\ng = hf.cb\nx = g(3)\n" + T("x")),
]


# A value read through a field / index / map lookup is a pointer inside the interpreter: every consumer must
# treat it like the plain value.  source x consumer position, deterministic.
_PSRC = ("class Pk {\n fi: int\n fb: bool\n fs: str\n fl: [int...]\n constructor(self) {\n  self.fi = 3\n  self.fb = true\n"
         "  self.fs = \"ab\"\n  self.fl = [1, 2]\n }\n fn idm(self, a: int) -> int {\n  return a\n }\n}\n"
         "pk = Pk()\nli: [int...] = [3, 4]\nlb: [bool...] = [true, false]\nls: [str...] = [\"ab\"]\n"
         "mi = map[str, int] { \"k\": 3 }\nidf = fn(a: int) -> int {\n return a\n}\n")
_INT_SRC = {"field": "pk.fi", "index": "li[0]", "mapget": "(get mi[\"k\"])"}
_BOOL_SRC = {"field": "pk.fb", "index": "lb[0]"}
_STR_SRC = {"field": "pk.fs", "index": "ls[0]"}
_INT_POS = {
    "neg": "-(%s)", "binop_left": "%s + 1", "binop_right": "1 + %s", "mul": "%s * %s", "cmp": "%s < 5", "eq": "%s == 3",
    "call_arg": "idf(%s)", "method_arg": "pk.idm(%s)", "list_elem": "[%s, 9]", "str_concat": "\"n\" + %s",
    "to_str": "(%s).to_str()", "pow": "(%s).pow(2)", "shift": "1 << %s", "bitand": "%s & 1", "div": "12 / %s", "rem": "12 % %s",
    "or_primary": "(%s) or 0",
}
_INT_STMT = {
    "if_cmp": "if %s > 1 {\n q = 1\n}\n", "from_bound": "tq = 0\nfrom 0 to %s {\n tq += 1\n}\n" + T("tq"),
    "from_start": "tq = 0\nfrom %s to 5 {\n tq += 1\n}\n" + T("tq"), "from_step": "tq = 0\nfrom 0 to 7 step %s {\n tq += 1\n}\n" + T("tq"),
    "opassign_rhs": "tq = 1\ntq += %s\n" + T("tq"), "index_with": "tq = li[%s - 3]\n" + T("tq"),
    "map_value": "mq = map[str, int] { \"z\": %s }\n" + T("mq"), "return": "rq = fn() -> int {\n return %s\n}\n" + T("rq() + 1"),
    "store_then_use": "tq = %s\n" + T("tq + 1") + T("-tq"), "unwrap_assign": "oq: int? = nil\nif oq ?= %s {\n" + T("oq") + "}\n",
    "push": "lq: [int...] = [0]\nlq.push(%s)\nlq[1] += 1\n" + T("lq"),
}
_BOOL_POS = {"not": "!(%s)", "and_left": "%s && true", "and_right": "true && %s", "or_left": "%s || false", "or_right": "false || %s",
             "eq": "%s == true", "xor": "%s ^ true"}
_BOOL_STMT = {"if": "if %s {\n q = 1\n}\n", "while": "wq = 0\nwhile %s {\n wq += 1\n break\n}\n" + T("wq"), "assert": "assert %s\n",
              "if_not": "if !(%s) {\n q = 1\n}\n", "return": "rq = fn() -> bool {\n return %s\n}\n" + T("rq() && true"),
              "filter_result": "fq = fn(a: int) -> bool {\n return %s\n}\n" + T("li.filter(fq)")}
_STR_POS = {"concat": "%s + \"c\"", "len": "(%s).len()", "mul": "%s * 2", "eq": "%s == \"ab\"", "contains": "(%s).contains(\"a\")",
            "index": "(%s)[0]"}
for _sn, _se in _INT_SRC.items():
    for _pn, _pt in _INT_POS.items():
        CATALOGUE.append(("ptr_%s_%s" % (_sn, _pn), _PSRC + T(_pt.replace("%s", _se))))
    for _pn, _pt in _INT_STMT.items():
        CATALOGUE.append(("ptr_%s_%s" % (_sn, _pn), _PSRC + _pt.replace("%s", _se) + T("1")))
for _sn, _se in _BOOL_SRC.items():
    for _pn, _pt in _BOOL_POS.items():
        CATALOGUE.append(("ptrb_%s_%s" % (_sn, _pn), _PSRC + T(_pt.replace("%s", _se))))
    for _pn, _pt in _BOOL_STMT.items():
        CATALOGUE.append(("ptrb_%s_%s" % (_sn, _pn), _PSRC + _pt.replace("%s", _se) + T("1")))
for _sn, _se in _STR_SRC.items():
    for _pn, _pt in _STR_POS.items():
        CATALOGUE.append(("ptrs_%s_%s" % (_sn, _pn), _PSRC + T(_pt.replace("%s", _se))))


# near-misses of the typing rules: programs the pinned compiler rejects (then they are only counted) but that a
# relaxed rule would accept — if accepted they must still be sound.
CATALOGUE += [
    ("alias_map_index", "type Stock map[str,int]\nst: Stock = map[str, int] { \"apples\": 3 }\nr = st[\"apples\"]\n" + T("r") + "st[\"pears\"] = 4\nst[\"apples\"] += 1\n" + T("st.len()")),
    ("alias_list_index", "type Li [int...]\nli: Li = [5, 6]\nr = li[1]\n" + T("r") + "li[0] = 9\nli[0] += 1\n" + T("li")),
    ("alias_str_index", "type Sa str\nsa: Sa = \"héllo\"\nr = sa[1]\n" + T("r") + T("sa.len()")),
    ("alias_bool_condition", "type Fl bool\nfl: Fl = true\nif fl {\n q = 1\n}\n" + T("!fl")),
    ("alias_fn_call", "type Fa fn(int) -> int\nfa: Fa = fn(a: int) -> int {\n return a + 1\n}\n" + T("fa(2)")),
    ("alias_class_field", "class Ka {\n f: int\n constructor(self) {\n  self.f = 2\n }\n}\ntype Ak Ka\nak: Ak = Ka()\n" + T("ak.f")),
    ("while_true_break_then_missing_return", "nm = fn(a: int, b: int) -> int {\n i = a\n while true {\n  if i > b {\n   break\n  }\n  return i\n }\n}\n" + T("nm(1, 5)") + "x = nm(9, 5)\n" + T("x")),
    ("while_cond_return_missing_after", "nm = fn(a: int) -> int {\n while a > 100 {\n  return 1\n }\n}\nx = nm(1)\n" + T("x")),
    ("from_loop_return_missing_after", "nm = fn(a: int) -> int {\n from 0 to a {\n  return 1\n }\n}\nx = nm(0)\n" + T("x")),
    ("else_if_without_else_missing_return", "nm = fn(a: int) -> int {\n if a > 1 {\n  return 1\n } else if a > 0 {\n  return 2\n }\n}\nx = nm(0)\n" + T("x")),
    # `modify` accepted for a variable the same function declared in an enclosing block
    ("modify_own_variable_from_if_block", "fd = fn(limit: int) -> bool {\n done = false\n i = 0\n while i < limit {\n  if i == 3 {\n   modify done = true\n  }\n  i = i + 1\n }\n return done\n}\n" + T("fd(10)") + T("fd(2)")),
    ("modify_module_variable_from_module_block", "mx = 1\nif mx == 1 {\n modify mx = 2\n}\n" + T("mx")),
    ("modify_own_variable_in_closure_that_captures_another", "cs = \"a\"\ng = fn() -> int {\n n = 0\n if cs == \"a\" {\n  modify n = 5\n  modify cs = \"b\"\n }\n return n\n}\n" + T("g()") + T("cs")),
    ("self_param_other_class_instance", "class Sh {\n s: int\n constructor(self, s: int) {\n  self.s = s\n }\n fn same(self, o: Self) -> bool {\n  return self.s == o.s\n }\n}\nclass Cv {\n w: int\n constructor(self) {\n  self.w = 1\n }\n fn go(self) -> bool {\n  q = Sh(3)\n  return q.same(self)\n }\n}\nc = Cv()\n" + T("c.go()")),
    ("class_param_other_class_instance", "class Sh {\n s: int\n constructor(self, s: int) {\n  self.s = s\n }\n}\nclass Cv {\n w: int\n constructor(self) {\n  self.w = 1\n }\n}\ng = fn(o: Sh) -> int {\n return o.s\n}\n" + T("g(Cv())")),
]


# ----------------------------------------------------------------------------- classes, members and chains (third session)
# Positions no generated program reached (found by the area-driven break round and by two side remarks of its agents
# about the pinned tree): classes declared inside functions, classes of imported modules whose members mention
# module-level names or the class itself, function-typed fields, long dot chains, containers of maps indexed by
# constants, `modify` of a captured optional between nil and present.
_DOG = ("dcount = 5\nhelper = fn() -> int {\n return 7\n}\nexport class Dog {\n id: int\n constructor(self) {\n  self.id = 1 + dcount\n }\n"
        " fn tag(self) -> int {\n  return self.id + dcount\n }\n fn hh(self) -> int {\n  return helper()\n }\n%s}\n")
_TWIN = " fn twin(self) -> Self {\n  return Dog()\n }\n"
CATALOGUE += [
    ("class_in_function_called_twice",
     "mk = fn(a: int) -> int {\n class Pq {\n  v: int\n  constructor(self, v: int) {\n   self.v = v\n  }\n  fn dbl(self) -> int {\n   return self.v * 2\n  }\n }\n p = Pq(a)\n return p.dbl()\n}\n"
     + T("mk(3)") + T("mk(4)")),
    ("class_in_function_capturing_local_called_twice",
     "mk = fn(a: int) -> int {\n seed = a * 10\n class Pq {\n  v: int\n  constructor(self) {\n   self.v = seed\n  }\n  fn gv(self) -> int {\n   return self.v + seed\n  }\n }\n p = Pq()\n return p.gv()\n}\n"
     + T("mk(1)") + T("mk(2)")),
    ("class_in_function_built_by_escaping_lambda",
     "mk = fn(a: int) -> fn() -> int {\n seed = a * 10\n class Pq {\n  v: int\n  constructor(self) {\n   self.v = seed\n  }\n }\n return fn() -> int {\n  p = Pq()\n  return p.v\n }\n}\ng = mk(2)\n" + T("g()")),
    ("function_typed_field_called",
     "class Hh {\n cb: fn(int) -> int\n constructor(self, f: fn(int) -> int) {\n  self.cb = f\n }\n fn via(self, x: int) -> int {\n  g = self.cb\n  return g(x)\n }\n}\n"
     "h = Hh(fn(x: int) -> int {\n return x * 2\n})\n" + T("h.via(4)") + T("h.cb(4)")),
    ("function_typed_field_called_zero_args",
     "class Hh {\n cb: fn() -> str\n constructor(self, f: fn() -> str) {\n  self.cb = f\n }\n}\nh = Hh(fn() -> str {\n return \"r\"\n})\n" + T("h.cb()")),
    ("function_typed_field_called_in_method",
     "class Hh {\n cb: fn(int) -> int\n constructor(self, f: fn(int) -> int) {\n  self.cb = f\n }\n fn run(self, x: int) -> int {\n  return self.cb(x) + 1\n }\n}\n"
     "h = Hh(fn(x: int) -> int {\n return x * 2\n})\n" + T("h.run(4)")),
    ("class_method_constructs_own_class",
     "class Dg {\n id: int\n constructor(self, i: int) {\n  self.id = i\n }\n fn twin(self) -> Self {\n  return Dg(self.id + 1)\n }\n}\nd = Dg(1)\ne = d.twin()\n" + T("e.id")),
    ("class_method_constructs_own_class_from_function",
     "class Dg {\n id: int\n constructor(self, i: int) {\n  self.id = i\n }\n fn twin(self) -> Self {\n  return Dg(self.id + 1)\n }\n}\nmk = fn() -> int {\n d = Dg(1)\n e = d.twin()\n return e.id\n}\n" + T("mk()")),
    # classes of an imported module
    ("module_class_members_use_module_names",
     {"main.ms": "import kennel\nd = kennel.Dog()\n" + T("d.tag()") + T("d.hh()"), "kennel.ms": _DOG % ""}),
    ("module_class_members_use_module_names_named_import",
     {"main.ms": "import Dog from kennel\nd = Dog()\n" + T("d.tag()") + T("d.hh()"), "kennel.ms": _DOG % ""}),
    ("module_class_method_constructs_own_class",
     {"main.ms": "import kennel\nd = kennel.Dog()\ne = d.twin()\n" + T("e.tag()"), "kennel.ms": _DOG % _TWIN}),
    ("module_class_method_constructs_own_class_named_import",
     {"main.ms": "import Dog from kennel\nd = Dog()\ne = d.twin()\n" + T("e.tag()"), "kennel.ms": _DOG % _TWIN}),
    ("module_class_built_by_module_function",
     {"main.ms": "import kennel\nd = kennel.mk()\n" + T("d.tag()") + "e = d.twin()\n" + T("e.hh()"),
      "kennel.ms": (_DOG % _TWIN) + "export mk: fn() -> Dog = fn() -> Dog {\n return Dog()\n}\n"}),
    ("module_class_constructor_only_dependency_shadowed_in_importer",
     {"main.ms": "import kennel\ndcount = 100\nd = kennel.Dog()\n" + T("d.id") + T("dcount"), "kennel.ms": _DOG % ""}),
    ("module_class_constructor_only_dependency",
     {"main.ms": "import stats\nimport kennel\nd = kennel.Pup()\ne = kennel.Pup()\n" + T("d.n") + T("e.n") + T("stats.seen()"),
      "kennel.ms": "pups: [int...] = [0]\nexport class Pup {\n n: int\n constructor(self) {\n  self.n = pups[0]\n  pups[0] += 1\n }\n}\nexport registered: fn() -> int = fn() -> int {\n return pups[0]\n}\n",
      "stats.ms": "import kennel\nexport seen: fn() -> int = fn() -> int {\n return kennel.registered()\n}\n"}),
    # long dot chains
    ("chain_later_call_argument_captured_only_there",
     "class Acc {\n v: int\n constructor(self) {\n  self.v = 0\n }\n fn add(self, k: int) -> Self {\n  self.v += k\n  return self\n }\n fn value(self) -> int {\n  return self.v\n }\n}\n"
     "second = 40\nmk = fn() -> fn() -> int {\n first = 1\n second = 2\n third = 3\n return fn() -> int {\n  a = Acc()\n  return a.add(first).add(second).add(third).value()\n }\n}\ng = mk()\n" + T("g()")),
    ("chain_later_call_argument_captured_only_there_str",
     "mk = fn() -> fn() -> str {\n open = \"(\"\n close = \")\"\n return fn() -> str {\n  s = \"a-b\"\n  return s.replace(\"a\", open).replace(\"b\", close)\n }\n}\ng = mk()\n" + T("g()")),
    ("chain_field_then_method_called",
     "class Eng {\n p: int\n constructor(self) {\n  self.p = 9\n }\n fn describe(self) -> int {\n  return self.p\n }\n}\nclass Car {\n engine: Eng\n constructor(self) {\n  self.engine = Eng()\n }\n fn me(self) -> Self {\n  return self\n }\n}\nc = Car()\n"
     + T("c.engine.describe()") + T("c.me().engine.describe()")),
    # containers of maps / lists indexed by constants and variables
    ("list_of_maps_constant_indexes",
     "m1 = map[int, str] {\n 1: \"one\",\n 3: \"three\"\n}\nm2 = map[int, str] {\n 7: \"siete\"\n}\ndicts: [map[int, str]...] = [m1, m2]\nk = 1\n"
     + T("dicts[k][7]") + T("dicts[0][1]") + T("dicts[1][7]") + "dicts[0][3] = \"tres\"\n" + T("dicts[0][3]") + T("m1[3]")),
    ("list_of_str_maps_constant_indexes",
     "m1 = map[str, int] {\n \"a\": 1\n}\ndicts: [map[str, int]...] = [m1]\n" + T("dicts[0][\"a\"]") + "dicts[0][\"b\"] = 2\n" + T("m1[\"b\"]")),
    ("map_of_lists_constant_indexes",
     "l1: [int...] = [5, 6]\nmm = map[int, [int...]] {\n 2: l1\n}\n" + T("mm[2]") + "q = get mm[2]\n" + T("q[1]")),
    ("list_of_lists_constant_indexes",
     "l1: [int...] = [5, 6]\nl2: [int...] = [7]\nll: [[int...]...] = [l1, l2]\n" + T("ll[0][1]") + T("ll[1][0]") + "ll[0][1] = 9\n" + T("l1[1]") + "ll[0][0] += 1\n" + T("l1[0]")),
    ("captured_map_indexed_in_closure",
     "stock = map[str, int] {\n \"apple\": 3\n}\nnums = map[int, int] {\n 1: 10\n}\nadd = fn(k: str, n: int) {\n stock[k] = n\n nums[2] = n\n}\nrd = fn(k: str) -> int? {\n return stock[k]\n}\nadd(\"pear\", 4)\n"
     + T("rd(\"pear\")") + T("rd(\"apple\")") + T("nums[2]") + T("stock.len()")),
    ("captured_map_indexed_in_escaping_closure",
     "mk = fn() -> fn(str) -> int? {\n stock = map[str, int] {\n  \"apple\": 3\n }\n return fn(k: str) -> int? {\n  stock[\"seen\"] = 1\n  return stock[k]\n }\n}\nrd = mk()\n" + T("rd(\"apple\")") + T("rd(\"seen\")")),
    ("alias_list_and_str_index",
     "type Row [int...]\nr: Row = [4, 5]\n" + T("r.len()")),
    # round 6: a function-valued field reached through an alias-typed / optional / returned receiver; op-assignments
    # that keep their kind; a byte next to another number
    ("function_typed_field_called_through_alias_receiver",
     "class Hh {\n cb: fn(int) -> int\n constructor(self, f: fn(int) -> int) {\n  self.cb = f\n }\n}\ntype HA Hh\nh: HA = Hh(fn(x: int) -> int {\n return x * 2\n})\n" + T("h.cb(4)")
     + "ho: Hh? = Hh(fn(x: int) -> int {\n return x * 3\n})\nhh = get ho\n" + T("hh.cb(4)") + "mk = fn() -> Hh {\n return Hh(fn(x: int) -> int {\n  return x + 1\n })\n}\n" + T("(mk()).cb(1)")),
    ("opassign_keeping_kind",
     "af = 1.5\naf += 1\n" + T("af") + "ab = B5\nab *= 2\n" + T("ab") + "ai = 5\nyb = 0b1\nai -= yb\n" + T("ai") + "ay = 0b1\nay += 0b1\n" + T("ay") + "st = \"a\"\nst += 1\n" + T("st") + "st *= 2\n" + T("st")),
    ("byte_with_numbers",
     "yb = 0b11\n" + T("yb + 1") + T("1.5 * yb") + T("yb - yb") + T("B2 * yb") + T("\"a\" + yb") + T("yb + \"a\"") + T("yb < 4") + T("yb == 3")),
    # the `x % -1` / `x / -1` corner of every kind pair (a shortcut arm that answers with the wrong kind)
    ("rem_and_div_by_minus_one_kinds",
     "tb = B10\nti = 10\ntf = 2.5\nsi = -1\nsb = -B1\n" + T("tb % si") + T("tb / si") + T("ti % sb") + T("ti / sb") + T("tb % sb") + T("ti % si") + T("tf % si")
     + "rq = tb % si\n" + T("rq + 2147483647 + 1")),
    # modify of a captured optional between nil and present
    ("modify_captured_optional_nil_to_present_and_back",
     "last: int? = nil\nnone: int? = nil\nseen = 0\nrec = fn(v: int) {\n modify last = v\n modify seen = seen + 1\n}\nclr = fn() {\n modify last = none\n}\n" + T("last == nil") + "rec(4)\n" + T("last") + T("get last")
     + "rec(9)\n" + T("last") + "clr()\n" + T("last == nil") + "rec(2)\n" + T("(last) or 0") + T("seen")),
]


# ----------------------------------------------------------------------------- ill-typed programs that get ACCEPTED
# C02 speaks about every program the compiler accepts.  The type checker's own mistakes show exactly on programs it
# should have refused, so the single type-breaking edits of C03 (site mutants of generated programs, and C03's
# whole-program catalogue) are run here too: a mutant that is rejected says nothing; one that is ACCEPTED is an
# accepted program like any other — it must end ok or with a defined failure, and its (typeof, kind) pairs must agree.
def run_mutants(seed):
    from . import c03
    text, sites, g = tgen.gen(seed)
    out = {"mutants": 0, "rejected": 0, "accepted": 0, "problems": [], "inconclusive": 0}
    r0, _, _ = core.run_program({"main.ms": text}, typed=True, cpu=10)
    if r0.cls != "ok":
        return out
    aliases, classes = dict(g.alias), set(g.classes)
    for s_ in sites:
        for fid, repl in c03.faults_for(s_):
            if repl == s_.text:
                continue
            mutated = tgen.splice(text, s_, repl)
            r, _, _ = core.run_program({"main.ms": mutated}, typed=True, cpu=10)
            out["mutants"] += 1
            a = analyse(mutated, r, aliases, classes)
            if not a["accepted"]:
                out["rejected"] += 1
                continue
            if "inconclusive" in a:
                out["inconclusive"] += 1
                continue
            out["accepted"] += 1
            for pcls, detail in a.get("problems", []):
                out["problems"].append({"sig": "C02:accepted_mutant:%s/%s:%s" % (s_.kind, fid, pcls), "class": pcls, "detail": detail,
                                        "text": mutated, "case": "seed %d, %s at a %s site (line %d)" % (seed, fid, s_.kind, s_.line + 1),
                                        "run": r.brief()})
    return out


def run_c03_catalogue(item):
    name, src = item
    files = src if isinstance(src, dict) else {"main.ms": src}
    r, _, _ = core.run_program(files, typed=True, cpu=10)
    a = analyse(files["main.ms"], r, {}, set(re.findall(r"class (\w+)", files["main.ms"])))
    return {"name": name, "accepted": a["accepted"], "problems": a.get("problems", []) if a["accepted"] and "inconclusive" not in a else [],
            "files": files, "run": r.brief()}


def run_case(item):
    kind, arg = item
    if kind == "rand":
        text, sites, g = tgen.gen(arg)
        aliases = dict(g.alias)
        classes = set(g.classes)
        feats = sorted(g.features)
        name = "seed %d" % arg
    else:
        name, body = arg
        extra = {}
        if isinstance(body, dict):      # multi-file case: {"main.ms": entry, other files ...}
            extra = {k: v for k, v in body.items() if k != "main.ms"}
            body = body["main.ms"]
        text = 'print "@@RUN@@"\n' + body
        aliases = {}
        for m_ in re.finditer(r"^type (\w+) (.*)$", body, re.M):
            t_ = tgen.parse_type(m_.group(2))
            if t_:
                aliases[m_.group(1)] = t_
        classes = set(re.findall(r"class (\w+)", body))
        feats = []
    files = {"main.ms": text}
    if kind != "rand":
        files.update(extra)
    r, _, _ = core.run_program(files, typed=True, cpu=10)
    a = analyse(text, r, aliases, classes)
    a["files"] = files if len(files) > 1 else None
    a["name"] = name
    a["kind"] = kind
    a["features"] = feats
    if a.get("problems") or kind == "cat":
        a["text"] = text
        a["run"] = r.brief()
    if "kinds" in a:
        a["kinds"] = sorted(a["kinds"])
    return a


def run(ctx):
    out = core.Outcome()
    items = [("cat", c) for c in CATALOGUE]
    base = ctx.seed * 1000003 + 101
    items += [("rand", base + i) for i in range(ctx.n(6000, 40000))]
    results = core.pmap(run_case, items, chunksize=8)
    accepted = rejected = pairs = comp_panics = 0
    kinds = set()
    feats = {}
    cls_count = {}
    for status, res in results:
        if status != "ok":
            out.inconclusive.append(str(res)[-400:])
            continue
        if not res["accepted"]:
            rejected += 1
            if res.get("compiler_panic"):
                comp_panics += 1
            elif res.get("kind") == "cat" and str(res.get("name", "")).startswith("capture_"):
                # the capture catalogue is made of legal programs: one that stops compiling observes nothing
                out.inconclusive.append("capture catalogue program %s is no longer accepted by the compiler" % res["name"])
            continue
        if "inconclusive" in res:
            out.inconclusive.append("%s: %s" % (res["name"], res["inconclusive"]))
            continue
        accepted += 1
        out.evaluations += 1
        pairs += res["pairs"]
        kinds.update(tuple(k) for k in res["kinds"])
        cls_count[res["cls"]] = cls_count.get(res["cls"], 0) + 1
        for f in res["features"]:
            feats[f] = feats.get(f, 0) + 1
        if res["pairs"] >= 5:
            out.distinct.add(core.h(res["name"] + str(res["pairs"]) + str(res["kinds"][:5])))
        for pcls, detail in res.get("problems", []):
            if res["kind"] == "cat":
                sig = "C02:%s:%s" % (res["name"], pcls)
            else:
                sig = "C02:random:%s:%s" % (pcls, detail if pcls == "dynamic_type_error" else mask(detail))
            out.violations.append(core.Violation(sig, "%s: %s" % (pcls, detail),
                                                 {"files": res.get("files") or {"main.ms": res["text"]}, "case": res["name"], "class": pcls,
                                                  "detail": detail, "run": res["run"]}))
        if res["kind"] == "rand" and len(out.samples) < 2 and res["pairs"] > 12 and "text" not in res:
            pass
    # a couple of verbatim samples (regenerated: workers only return text for problem cases)
    for i in range(2):
        text, _, g = tgen.gen(base + i)
        out.samples.append({"seed": base + i, "source_head": text[:1500]})
    out.coverage.update({"accepted_programs": accepted, "compiler_rejected_programs": rejected,
                         "compiler_panics_on_generated_programs": comp_panics, "typeof_kind_pairs_checked": pairs,
                         "distinct_(static type, run-time kind)_pairs": len(kinds), "exit_classes": cls_count,
                         "feature_counts": feats, "catalogue_cases": len(CATALOGUE),
                         "avoidance_rules": ["negate_alias_typed (compiler panic, C16)",
                                             "loop counters / fuel variables never written"]})
    # ill-typed programs that the compiler accepts (see run_mutants)
    from . import c03 as _c03
    mres = core.pmap(run_mutants, [base + 500000 + i for i in range(ctx.n(10, 80))], chunksize=1)
    mcov = {"mutants_run": 0, "rejected_by_the_compiler": 0, "accepted_and_analysed": 0}
    for status, res in mres:
        if status != "ok":
            out.inconclusive.append(str(res)[-300:])
            continue
        mcov["mutants_run"] += res["mutants"]
        mcov["rejected_by_the_compiler"] += res["rejected"]
        mcov["accepted_and_analysed"] += res["accepted"]
        out.evaluations += res["accepted"]
        for pr in res["problems"]:
            out.violations.append(core.Violation(pr["sig"], "an ill-typed edit is ACCEPTED and then: %s: %s" % (pr["class"], pr["detail"]),
                                                 {"files": {"main.ms": pr["text"]}, "case": pr["case"], "class": pr["class"],
                                                  "detail": pr["detail"], "run": pr["run"]}))
    cres = core.pmap(run_c03_catalogue, [c for c in _c03.EXTRA if c[1] is not None and not c[0].startswith("control:")], chunksize=4)
    mcov["c03_catalogue_programs"] = 0
    mcov["c03_catalogue_accepted"] = []
    for status, res in cres:
        if status != "ok":
            continue
        mcov["c03_catalogue_programs"] += 1
        if res["accepted"]:
            mcov["c03_catalogue_accepted"].append(res["name"])
            out.evaluations += 1
            for pcls, detail in res["problems"]:
                out.violations.append(core.Violation("C02:accepted_ill_typed:%s:%s" % (res["name"], pcls),
                                                     "C03's ill-typed catalogue program `%s` is ACCEPTED and then: %s: %s" % (res["name"], pcls, detail),
                                                     {"files": res["files"], "case": res["name"], "class": pcls, "detail": detail, "run": res["run"]}))
    out.coverage["ill_typed_programs_lane"] = mcov
    if ctx.tier == "thorough" and not os.environ.get("VERIF_NO_SANITIZER_LANE"):
        # AddressSanitizer lane (deciding here): a memory error of the interpreter on an accepted program is a failure
        # outside the ones the statement allows.
        from .. import sanitize
        progs = []
        for c in CATALOGUE:
            files = dict(c[1]) if isinstance(c[1], dict) else {"main.ms": c[1]}
            files["main.ms"] = 'print "@@RUN@@"\n' + files["main.ms"]
            progs.append((c[0], files, "main.ms"))
        for i in range(1500):
            text, _, _ = tgen.gen(base + i)
            progs.append(("seed %d" % (base + i), {"main.ms": text}, "main.ms"))
        ev, hits = sanitize.asan_lane(progs, env={"MSCRIPT_VERIF_TYPED_PRINT": "1"})
        ev["verdict"] = "part of the verdict: an AddressSanitizer report on an accepted program is a violation"
        out.coverage["asan_lane"] = ev
        for hit in hits:
            kind, frame = hit["report"]
            out.violations.append(core.Violation("C02:asan:%s:%s" % (kind, frame), "AddressSanitizer: %s in %s" % (kind, frame),
                                                 {"files": hit["files"], "case": hit["name"], "class": "memory_error",
                                                  "detail": hit["err_tail"]}))
    out.rule = ("programs = boundary catalogue (%d hand-written cases of typing rules) + seeded type-directed programs "
                "(classes, aliases, helper functions, typed variable pool, statements in module/function/closure/method/"
                "constructor/loop/branch contexts). Monitors: every accepted program must end ok or with a language-defined "
                "failure; every `typeof e` text is compared with the run-time kind tree of `e` (H-KIND). Non-trivial = "
                "accepted program with >= 5 checked (typeof, kind) pairs; distinct by observed pairs." % len(CATALOGUE))
    out.assumptions = ["rejected programs are outside the quantifier", "nil conforms to every static type (the statement "
                       "speaks of values other than nil)", "failure whitelist of core.classify_failure = the dynamic failures "
                       "the statement lists"]
    if accepted == 0 or pairs == 0:
        out.observed_nothing = "no accepted program / no typeof-kind pair observed"
    elif rejected > 0.25 * (accepted + rejected):
        out.observed_nothing = "%d of %d generated programs rejected: generator out of the language" % (rejected, accepted + rejected)
    return out


def replay(path):
    src = open(os.path.join(path, "files", "main.ms")).read()
    files = {}
    for root, _, names in os.walk(os.path.join(path, "files")):
        for n in names:
            files[os.path.relpath(os.path.join(root, n), os.path.join(path, "files"))] = open(os.path.join(root, n)).read()
    r, _, _ = core.run_program(files, typed=True, cpu=10)
    aliases = {}
    for m in re.finditer(r"type (\w+) (.*)", src):
        t = tgen.parse_type(m.group(2))
        if t:
            aliases[m.group(1)] = t
    a = analyse(src, r, aliases, set(re.findall(r"class (\w+)", src)))
    print(json.dumps({k: v for k, v in a.items() if k != "kinds"}, indent=1, default=str))
    print(r.err[-600:])
    return 1 if a.get("problems") else 0
