"""C20 — `mscript clean DIR` deletes exactly the *.mmm regular files directly in DIR.

Monitor: recursive snapshot (type, content hash, link target) of the whole case root before/after,
plus strace of every mutating file-system syscall.  Oracle: models the statement."""
import hashlib
import itertools
import os
import re

from .. import core

NAMES = ["x.mmm", "x.ms", "x.mmm.bak", "x.transpiled.mmm", ".mmm", "mmm", "x.MMM", "x.mmm~", "sp ace.mmm",
         "é.mmm", "a.b.mmm", "x.mmm ", "y.mmm", "z.mmm",
         # hidden files WITH the extension (round 7): a leading dot does not take the extension away
         ".cache.mmm", ".a.b.mmm"]
KINDS = ["file", "empty", "dir", "dir_with_mmm", "link_in", "link_out", "link_dangling", "link_dir"]
FORMS = ["rel", "abs", "slash", "dot"]

SYSCALLS = ("unlink,unlinkat,rmdir,rename,renameat,renameat2,truncate,ftruncate,openat,open,creat,chmod,"
            "fchmodat,mkdir,mkdirat,symlink,symlinkat,link,linkat,chown,fchownat,lchown,utimensat,setxattr")


def has_mmm_ext(name):
    """Extension in the usual sense (std::path::Path::extension, os.path.splitext): text after the last dot of a
    name with a non-empty stem.  `.mmm` is a dot-file without extension, like `mmm` it must survive."""
    if name.startswith("."):
        rest = name[1:]
        if "." not in rest:
            return False
        return rest.rsplit(".", 1)[1] == "mmm"
    if "." not in name:
        return False
    return name.rsplit(".", 1)[1] == "mmm"


def build_tree(root, entries):
    """root/outside.txt, root/decoy.mmm (parent decoy), root/sib/s.mmm, root/d/<entries>."""
    d = os.path.join(root, "d")
    os.makedirs(d)
    os.makedirs(os.path.join(root, "sib"))
    for rel, text in (("outside.txt", "outside"), ("decoy.mmm", "parent decoy"), ("sib/s.mmm", "sibling decoy"),
                      ("target_out.mmm", "link target outside")):
        with open(os.path.join(root, rel), "w") as f:
            f.write(text)
    os.makedirs(os.path.join(root, "target_dir"))
    with open(os.path.join(root, "target_dir", "t.mmm"), "w") as f:
        f.write("inside linked dir")
    with open(os.path.join(d, "keep_target.txt"), "w") as f:
        f.write("link target inside")
    for name, kind in entries:
        p = os.path.join(d, name)
        if kind == "file":
            with open(p, "w") as f:
                f.write("content of " + name)
        elif kind == "empty":
            open(p, "w").close()
        elif kind == "dir":
            os.mkdir(p)
        elif kind == "dir_with_mmm":
            os.mkdir(p)
            with open(os.path.join(p, "inner.mmm"), "w") as f:
                f.write("inner")
            os.mkdir(os.path.join(p, "deep"))
            with open(os.path.join(p, "deep", "deep.mmm"), "w") as f:
                f.write("deep")
        elif kind == "link_in":
            os.symlink("keep_target.txt", p)
        elif kind == "link_out":
            os.symlink("../target_out.mmm", p)
        elif kind == "link_dangling":
            os.symlink("nowhere.mmm", p)
        elif kind == "link_dir":
            os.symlink("../target_dir", p)


def snapshot(root):
    snap = {}
    for dirpath, dirnames, filenames in os.walk(root):
        for n in dirnames + filenames:
            p = os.path.join(dirpath, n)
            rel = os.path.relpath(p, root)
            st = os.lstat(p)
            if os.path.islink(p):
                snap[rel] = ("link", os.readlink(p))
            elif os.path.isdir(p):
                snap[rel] = ("dir", oct(st.st_mode & 0o7777))
            else:
                with open(p, "rb") as f:
                    snap[rel] = ("file", hashlib.sha1(f.read()).hexdigest(), oct(st.st_mode & 0o7777))
    return snap


MUT_RE = re.compile(r'^\d+\s+(\w+)\((.*)\)\s+=\s+(-?\d+|\?)')
STR_RE = re.compile(r'"((?:[^"\\]|\\.)*)"')


def unescape(s):
    return s.encode("latin-1", "backslashreplace").decode("unicode_escape").encode("latin-1", "replace").decode(
        "utf-8", "replace")


def parse_strace(text, cwd):
    """Successful mutating syscalls as (name, [absolute paths], raw)."""
    events = []
    for line in text.splitlines():
        m = MUT_RE.match(line)
        if not m:
            continue
        name, args, ret = m.group(1), m.group(2), m.group(3)
        if ret == "?" or int(ret) < 0:
            continue
        if name in ("open", "openat", "creat"):
            if name != "creat" and not re.search(r"O_WRONLY|O_RDWR|O_CREAT|O_TRUNC|O_APPEND", args):
                continue
        paths = [os.path.normpath(os.path.join(cwd, unescape(s))) for s in STR_RE.findall(args)]
        events.append((name, paths, line.strip()))
    return events


def one_case(item):
    entries, form = item
    root = core.case_dir("c20")
    real_root = os.path.realpath(root)
    try:
        build_tree(root, entries)
        d = os.path.join(root, "d")
        if form == "rel":
            cwd, arg = root, "d"
        elif form == "abs":
            cwd, arg = root, d
        elif form == "slash":
            cwd, arg = root, "d/"
        else:
            cwd, arg = d, "."
        before = snapshot(root)
        st_log = os.path.join(core.CASE_ROOT, "st-%d-%d.log" % (os.getpid(), core._case_counter[0]))
        r = core.run(["strace", "-f", "-o", st_log, "-e", "trace=" + SYSCALLS, "-s", "4096", core.BIN, "clean", arg],
                     cwd, cpu=20)
        try:
            with open(st_log, encoding="utf-8", errors="replace") as f:
                st_text = f.read()
        except OSError:
            st_text = ""
        finally:
            try:
                os.unlink(st_log)
            except OSError:
                pass
        after = snapshot(root)
        # ---- oracle
        must, may = set(), set()
        for name, kind in entries:
            ext = has_mmm_ext(name)
            rel = os.path.join("d", name)
            if kind in ("file", "empty"):
                if ext is True:
                    must.add(rel)
                elif ext is None:
                    may.add(rel)
            elif kind.startswith("link") and ext is not False:
                may.add(rel)          # removing the *link* (never its target) is acceptable
        problems = []
        removed = set(before) - set(after)
        added = set(after) - set(before)
        changed = {k for k in before if k in after and before[k] != after[k]}
        for rel in sorted(must - removed):
            problems.append("not_removed:" + kindof(rel, entries))
        for rel in sorted(removed - must - may):
            problems.append("wrongly_removed:" + kindof(rel, entries))
        for rel in sorted(added):
            problems.append("created:" + rel)
        for rel in sorted(changed):
            problems.append("altered:" + kindof(rel, entries))
        if r.cls in ("wall_timeout", "cpu_timeout", "spawn_error"):
            return {"inconclusive": "%s on %r" % (r.cls, item)}
        if r.cls != "ok":
            problems.append("exit:" + r.cls)
        # "reports how many it removed": the pinned wording `Removed N files`, or — whatever the wording — the last
        # line of the output that carries a number standing alone (the summary follows the per-file lines)
        m = re.search(r"Removed (\d+) files", r.out)
        reported = None
        if m:
            reported = int(m.group(1))
        else:
            for line in reversed([l for l in r.out.split("\n") if l.strip()]):
                nums = re.findall(r"(?<![\w./-])(\d+)(?![\w./-])", line)
                if nums:
                    reported = int(nums[0]) if len(set(nums)) == 1 else (len(removed) if str(len(removed)) in nums else int(nums[0]))
                    break
        if r.cls == "ok":
            if reported is None:
                problems.append("no_count_reported")
            elif reported != len(removed):
                problems.append("count_mismatch")
        # ---- syscall monitor
        events = parse_strace(st_text, os.path.realpath(cwd))
        allowed = {os.path.join(real_root, p) for p in must | may}
        n_sys = 0
        for name, paths, raw in events:
            inside = [p for p in paths if (os.path.realpath(os.path.dirname(p)) + "/").startswith(real_root + "/")]
            if not inside:
                continue
            n_sys += 1
            if name in ("unlink", "unlinkat") and all(
                    os.path.join(os.path.realpath(os.path.dirname(p)), os.path.basename(p)) in allowed for p in inside):
                continue
            problems.append("syscall:" + name)
        if not st_text.strip():
            return {"inconclusive": "strace produced no output for %r" % (item,)}
        res = {"item": item, "removed": sorted(removed), "must": sorted(must), "n_sys": n_sys,
               "nontrivial": bool(must) and len(entries) >= 2}
        if problems:
            res["problems"] = sorted(set(problems))
            res["witness"] = {"entries": entries, "dir_form": form, "cmd": "mscript clean " + arg,
                              "expected_removed": sorted(must), "optional": sorted(may),
                              "observed_removed": sorted(removed), "created": sorted(added),
                              "altered": sorted(changed), "run": r.brief(),
                              "mutating_syscalls": [e[2] for e in events][:30]}
        return res
    finally:
        core.rm(root)


def kindof(rel, entries):
    base = os.path.basename(rel)
    for name, kind in entries:
        if rel == os.path.join("d", name):
            ext = has_mmm_ext(name)
            return "%s(%s,ext_mmm=%s)" % (kind, "dotfile" if name.startswith(".") else "name", ext)
    return "other:" + rel


def signature(entries, problems):
    """Deviation classes + the kinds of entry involved (independent of the random draw)."""
    return "C20:" + "+".join(problems)


def gen_cases(ctx):
    cases = []
    # exhaustive: every single entry, every pair with x.mmm present as a regular file
    for name in NAMES:
        for kind in KINDS:
            for form in FORMS:
                cases.append(([(name, kind)], form))
    for name in NAMES:
        if name == "x.mmm":
            continue
        for kind in KINDS:
            cases.append(([("x.mmm", "file"), (name, kind)], "rel"))
            cases.append(([(name, kind), ("x.mmm", "file")], "abs"))
    n_exh = len(cases)
    rng = ctx.rng("trees")
    for _ in range(ctx.n(4000, 30000)):
        k = rng.choice([2, 3, 3, 4, 5, 6, 8])
        names = rng.sample(NAMES, min(k, len(NAMES)))
        entries = [(n, rng.choice(KINDS if rng.random() < 0.6 else ["file", "file", "empty"])) for n in names]
        cases.append((entries, rng.choice(FORMS)))
    if not ctx.quick:
        # all 3-subsets over a reduced name set, all kinds
        red = ["x.mmm", "x.ms", "x.MMM", "a.b.mmm", "x.mmm~"]
        for names in itertools.combinations(red, 3):
            for kinds in itertools.product(["file", "dir_with_mmm", "link_out", "link_dir"], repeat=3):
                cases.append((list(zip(names, kinds)), "rel"))
    return cases, n_exh


def run(ctx):
    out = core.Outcome()
    cases, n_exh = gen_cases(ctx)
    results = core.pmap(one_case, cases, chunksize=8)
    n_sys = 0
    removed_total = 0
    kinds_seen = set()
    for status, res in results:
        if status != "ok":
            out.inconclusive.append(str(res)[-400:])
            continue
        if "inconclusive" in res:
            out.inconclusive.append(res["inconclusive"])
            continue
        out.evaluations += 1
        n_sys += res["n_sys"]
        removed_total += len(res["removed"])
        entries, form = res["item"]
        for n, k in entries:
            kinds_seen.add((has_mmm_ext(n), k))
        if res["nontrivial"]:
            out.distinct.add(core.h(res["item"]))
        if len(out.samples) < 4 and res["nontrivial"]:
            out.samples.append({"entries": entries, "dir_form": form, "removed": res["removed"]})
        if "problems" in res:
            out.violations.append(core.Violation(signature(entries, res["problems"]),
                                                 "clean deviates: " + ", ".join(res["problems"]), res["witness"]))
    out.rule = ("directory trees: DIR with entries (name from %d special names x kind from %s), decoy *.mmm in the "
                "parent, a sibling and inside sub-directories; DIR given as rel/abs/trailing-slash/'.'; "
                "%d cases enumerated exhaustively (all single entries x forms, all pairs with x.mmm), rest seeded. "
                "Non-trivial = >=2 entries and >=1 file that must be removed; distinct by (entries, form)."
                % (len(NAMES), KINDS, n_exh))
    out.coverage.update({"mutating_syscalls_inspected": n_sys, "files_removed_total": removed_total,
                         "entry_classes_seen(ext_mmm,kind)": len(kinds_seen), "exhaustive_part_cases": n_exh})
    out.assumptions = ["`.mmm` is a dot-file WITHOUT extension (std::path / os.path.splitext sense) and must be kept; symlinks named "
                       "*.mmm may or may not be removed (statement leaves it open); "
                       "a symlink's target must never change", "strace -f sees every syscall of the process"]
    if out.evaluations == 0 or n_sys == 0:
        out.observed_nothing = "no case executed / strace saw no mutating syscall"
    return out


def replay(path):
    import json
    with open(os.path.join(path, "case.json")) as f:
        case = json.load(f)
    w = case["witness"]
    res = one_case(([tuple(e) for e in w["entries"]], w["dir_form"]))
    print(json.dumps(res, indent=1, default=str, ensure_ascii=False))
    return 1 if "problems" in res else 0
