"""C15 — operands are evaluated left to right, exactly once; `&&`, `||`, `(x) or y` short-circuit.

Workload: (1) every expression shape of depth <= 3 over the reduced operator set of models/evalorder.py,
each with every valuation of its two-valued leaves (deterministic, complete); (2) the arity catalogue
(f0..f4, method calls m0..m4); (3) seeded random trees of depth <= 4 over the full operator set in eight
statement contexts.  Oracle: models/evalorder.py — exact comparison of the log lines and the printed value."""
import json
import os

from .. import core
from ..models import evalorder as eo

MODE = os.environ.get("C15_MODEL_MODE", "ltr")     # only for validating the engine against a wrong model

# catalogue cases pinning genuine defects: (signature id, program after the prelude, expected lines, what)
PINNED = [
    ("pin:neg_of_index", "pl: [int...] = [t(1), t(2)]\nprint -(pl[t(0)])\n", ["t 1", "t 2", "t 0", "-1"],
     "unary minus applied directly to an index expression dies with `cannot negate 1` (the element pointer is "
     "not dereferenced by `neg`)"),
    ("pin:not_of_index", "pq: [bool...] = [tb(1, true), tb(2, false)]\nprint !(pq[t(0)])\n",
     ["tb 1", "tb 2", "t 0", "false"],
     "`!` applied directly to an index expression dies with `not can only negate booleans` (element pointer)"),
]


def run_src(src):
    r, _, _ = core.run_program({"main.ms": src}, cpu=10)
    return r


def rejected(r):
    return core.compile_rejected(r)


def split_sections(lines):
    """Sections are introduced by `@ <i>` marker lines."""
    secs = {}
    cur = None
    for l in lines:
        if l.startswith("@ "):
            cur = l[2:]
            secs[cur] = []
        elif cur is not None:
            secs[cur].append(l)
    return secs


def work_shape(item):
    sid, shape = item
    vals = eo.valuations(shape)
    stmts = []
    expected = []
    stats = {}
    for i, bits in enumerate(vals):
        tree = eo.instantiate(shape, bits)
        log, val, skipped, st = eo.evaluate(tree, None, MODE)
        for k, v in st.items():
            stats[k] = stats.get(k, 0) + v
        stmts.append("print \"@ %d\"\nprint %s\n" % (i, eo.render(tree)))
        expected.append((log, val, skipped, eo.render(tree)))
    src = eo.PRELUDE + "".join(stmts)
    r = run_src(src)
    res = {"kind": "shape", "id": sid, "stats": stats, "runs": 1, "sections": len(vals), "problems": [],
           "rejected": None, "inconclusive": None, "lines": 0, "sample": None}
    if r.cls in ("wall_timeout", "spawn_error", "cpu_timeout"):
        res["inconclusive"] = "%s: %s" % (sid, r.cls)
        return res
    if rejected(r):
        res["rejected"] = (r.out + r.err)[-500:]
        return res
    secs = split_sections(r.lines())
    for i, (log, val, skipped, text) in enumerate(expected):
        obs = secs.get(str(i))
        last = i == len(expected) - 1
        ok = r.cls == 'ok' or (obs is not None and str(i + 1) in secs)
        dev = eo.classify(log, val, obs or [], skipped, ok)
        res["lines"] += len(log) + 1
        if dev:
            res["problems"].append({"deviation": dev, "expression": text, "expected_lines": log + [val],
                                    "observed_lines": obs, "run": r.brief() if dev == "failure" else {"cls": r.cls},
                                    "files": {"main.ms": eo.PRELUDE + "print %s\n" % text}})
            if dev == "failure":
                break
    if not res["problems"] and len(expected) >= 2:
        log, val, _, text = expected[-1]
        res["sample"] = {"shape": sid, "expression": text, "expected_log": log, "value": val}
    return res


def work_tree(item):
    """One concrete tree as its own program (arity catalogue / pinned cases)."""
    sid, tree = item
    log, val, skipped, st = eo.evaluate(tree, None, MODE)
    src = eo.PRELUDE + "print %s\n" % eo.render(tree)
    r = run_src(src)
    res = {"kind": "cat", "id": sid, "stats": st, "runs": 1, "sections": 1, "problems": [], "rejected": None,
           "inconclusive": None, "lines": len(log) + 1, "sample": None}
    if r.cls in ("wall_timeout", "spawn_error", "cpu_timeout"):
        res["inconclusive"] = "%s: %s" % (sid, r.cls)
        return res
    if rejected(r):
        res["rejected"] = (r.out + r.err)[-500:]
        return res
    dev = eo.classify(log, val, r.lines(), skipped, r.cls == 'ok')
    if dev:
        res["problems"].append({"deviation": dev, "expression": eo.render(tree), "expected_lines": log + [val],
                                "observed_lines": r.lines(), "run": r.brief(), "files": {"main.ms": src}})
    return res


# Guarded traps (round 6): the right operand of `&&` / `||` has NO call in it (nothing logs), but it stops the program
# when it is evaluated although the left operand has decided the result: division / remainder by a variable that is
# zero, of every kind.  The value printed must be the left operand's decision and the run must not fail.
def _guarded_traps():
    out = []
    zeros = [("int", "gz = 0", "ga = 12"), ("bigint", "gz = B0", "ga = B12"), ("float", "gz = 0.0", "ga = 1.5"), ("byte", "gz = 0b0", "ga = 0b11")]
    for kind, zdecl, adecl in zeros:
        for op in ("/", "%"):
            if kind == "float" and op == "%":
                pass
            decl = "%s\n%s\ngone = 1\n" % (zdecl, adecl)
            body = [
                ("and_stmt", "print gz != gz - gz + gz && ga %s gz == ga" % op, "false") if False else None,
                ("and_print", "print gone == 2 && ga %s gz == ga" % op, "false"),
                ("or_print", "print gone == 1 || ga %s gz == ga" % op, "true"),
                ("and_assigned", "gr = gone == 2 && ga %s gz == ga\nprint gr" % op, "false"),
                ("or_assigned", "gr = gone == 1 || ga %s gz == ga\nprint gr" % op, "true"),
                ("and_if", "if gone == 2 && ga %s gz == ga {\n  print \"yes\"\n} else {\n  print \"no\"\n}" % op, "no"),
                ("or_while", "gw = 0\nwhile gw == 0 && (gone == 1 || ga %s gz == ga) {\n  gw = 1\n}\nprint gw" % op, "1"),
                ("and_argument", "print tb(1, gone == 2 && ga %s gz == ga)" % op, "tb 1\nfalse"),
                ("and_in_function", "gf = fn(p: int) -> bool {\n  return p == 2 && ga %s gz == ga\n}\nprint gf(gone)" % op, "false"),
                ("or_in_function_params", "gf = fn(total: int, parts: int) -> bool {\n  return parts == 0 || total %s parts < 100\n}\nprint gf(500, 0)" % op.replace("%", "/"), "true") if kind == "int" else None,
                ("and_nested", "print (gone == 2 && ga %s gz == ga) || gone == 1" % op, "true"),
                ("and_chain", "print gone == 1 && gone == 2 && ga %s gz == ga" % op, "false"),
                ("and_after_call", "print tb(1, false) && ga %s gz == ga" % op, "tb 1\nfalse"),
            ]
            for ent in body:
                if ent is None:
                    continue
                name, stmt, exp = ent
                out.append(("trap:%s:%s:%s" % (kind, "div" if op == "/" else "rem", name), decl + stmt + "\n", exp.split("\n"),
                            "the right operand of a decided `&&` / `||` was evaluated: it divides by a zero %s variable" % kind))
    return out


PINNED += _guarded_traps()


def work_pinned(item):
    sid, src, exp_lines = item
    r = run_src(src)
    res = {"kind": "pin", "id": sid, "stats": {}, "runs": 1, "sections": 1, "problems": [], "rejected": None,
           "inconclusive": None, "lines": len(exp_lines), "sample": None}
    if r.cls in ("wall_timeout", "spawn_error", "cpu_timeout"):
        res["inconclusive"] = "%s: %s" % (sid, r.cls)
        return res
    if rejected(r):
        res["rejected"] = (r.out + r.err)[-500:]
        return res
    if r.lines() != exp_lines or r.cls != 'ok':
        dev = "failure" if r.cls != 'ok' else "value"
        res["problems"].append({"deviation": dev, "expected_lines": exp_lines, "observed_lines": r.lines(),
                                "run": r.brief(), "files": {"main.ms": src}})
    return res


def work_batch(item):
    """Several family shapes in one program (one `@ i` section each); the mutable places carry over from section
    to section, in the program and in the model alike."""
    fam, kind, place, in_fn, shapes = item
    state = dict(eo.INIT_STATE)
    stmts, expected, stats = [], [], {}
    for i, (sid, shape) in enumerate(shapes):
        if fam == "disturb":
            tree = eo.build_family_tree(shape, eo.disturb_leaf(place))
        elif fam == "fold":
            tree = eo.build_family_tree(shape, eo.fold_leaf)
        else:
            tree = shape
        reset = ""
        if place is not None:
            # every section starts from the initial value of its place, so one deviating section cannot cascade
            state[place] = eo.INIT_STATE[place]
            reset = "%s = %s\n" % (eo.VAR_SRC[place], eo.fmt(eo.INIT_STATE[place]))
        log, val, skipped, st = eo.evaluate(tree, None, MODE, state)
        for k, v in st.items():
            stats[k] = stats.get(k, 0) + v
        text = eo.render(tree)
        if in_fn:
            stmts.append("print \"@ %d\"\n%sw%d = fn() {\n  print %s\n}\nw%d()\n" % (i, reset, i, text, i))
        else:
            stmts.append("print \"@ %d\"\n%sprint %s\n" % (i, reset, text))
        expected.append((sid, log, val, skipped, text))
    src = eo.PRELUDE + "".join(stmts)
    r = run_src(src)
    res = {"kind": "batch", "id": "%s:%s" % (fam, kind), "stats": stats, "runs": 1, "sections": 0, "problems": [],
           "rejected": None, "inconclusive": None, "lines": 0, "sample": None, "ids": [], "not_compared": 0}
    if r.cls in ("wall_timeout", "spawn_error", "cpu_timeout"):
        res["inconclusive"] = "%s: %s" % (res["id"], r.cls)
        return res
    if rejected(r):
        res["rejected"] = (r.out + r.err)[-500:]
        res["reject_src"] = "".join(stmts)[:400]
        return res
    secs = split_sections(r.lines())
    for i, (sid, log, val, skipped, text) in enumerate(expected):
        obs = secs.get(str(i))
        ok = r.cls == 'ok' or (obs is not None and str(i + 1) in secs)
        if obs is None and r.cls != 'ok':
            res["not_compared"] += 1          # the program died in an earlier section (already reported)
            continue
        res["sections"] += 1
        res["ids"].append(sid)
        res["lines"] += len(log) + 1
        dev = eo.classify(log, val, obs or [], skipped, ok)
        if dev:
            res["problems"].append({"deviation": dev, "case": sid, "expression": text, "expected_lines": log + [val],
                                    "observed_lines": obs, "section": i,
                                    "note": "section %d of a batch (replay runs the whole batch); the place is reset to "
                                            "its initial value before every section" % i,
                                    "run": r.brief() if dev == "failure" else {"cls": r.cls},
                                    "batch": [e[4] for e in expected], "in_fn": in_fn, "files": {"main.ms": src}})
    if not res["problems"] and fam == "disturb" and expected:
        sid, log, val, _, text = expected[len(expected) // 2]
        res["sample"] = {"family": res["id"], "shape": sid, "expression": text, "expected_log": log, "value": val}
    return res


def work_random(seed):
    g = eo.gen_random(seed, 4)
    res = {"kind": "rand", "id": str(seed), "stats": {}, "runs": 0, "sections": 0, "problems": [], "rejected": None,
           "inconclusive": None, "lines": 0, "sample": None, "ops": {}, "depth": 0, "context": None, "root": None}
    if g is None:
        res["inconclusive"] = "generator gave up for seed %s" % seed
        return res
    tree, helpers, ctx, ty = g["tree"], g["helpers"], g["context"], g["type"]
    src, repeat = eo.program(tree, helpers, ctx, ty)
    state = dict(eo.INIT_STATE)
    parts, exp, st = [], [], {}
    for _ in range(repeat):
        log, val, skipped, st1 = eo.evaluate(tree, helpers, MODE, state)
        if ctx == 'concat':
            val = "v=" + val
        parts.append((log, val, skipped))
        exp += log + [val]
        for k, v in st1.items():
            st[k] = st.get(k, 0) + v
    log = parts[0][0]
    r = run_src(src)
    res.update({"stats": st, "runs": 1, "sections": 1, "lines": len(exp), "ops": eo.count_ops(tree, {}),
                "depth": eo.depth(tree), "context": ctx, "root": eo.root_op(tree), "hash": core.h(src[len(eo.PRELUDE):]),
                "helpers": len(helpers), "loglen": len(log)})
    if r.cls in ("wall_timeout", "spawn_error", "cpu_timeout"):
        res["inconclusive"] = "random %s: %s" % (seed, r.cls)
        return res
    if rejected(r):
        res["rejected"] = (r.out + r.err)[-500:]
        res["reject_src"] = src[len(eo.PRELUDE):]
        return res
    obs = r.lines()
    dev = None
    pos = 0
    for i, (plog, pval, pskipped) in enumerate(parts):
        last = i == len(parts) - 1
        part = obs[pos:] if last else obs[pos:pos + len(plog) + 1]
        pos += len(plog) + 1
        dev = eo.classify(plog, pval, part, pskipped, r.cls == 'ok')
        if dev:
            break
    if dev:
        res["problems"].append({"deviation": dev, "expression": eo.render(tree), "context": ctx,
                                "expected_lines": exp, "observed_lines": obs, "run": r.brief(),
                                "generator_seed": str(seed), "files": {"main.ms": src}})
    elif len(log) >= 6 and len(src) - len(eo.PRELUDE) < 500:
        res["sample"] = {"program_after_prelude": src[len(eo.PRELUDE):], "expected_lines": exp}
    return res


def work(item):
    kind = item[0]
    if kind == "shape":
        return work_shape(item[1:])
    if kind == "cat":
        return work_tree(item[1:])
    if kind == "pin":
        return work_pinned(item[1:])
    if kind == "batch":
        return work_batch(item[1:])
    return work_random(item[1])


def run(ctx):
    out = core.Outcome()
    shapes = eo.all_shapes(3)
    items = []
    avoided = {}
    for sid, shape, why in shapes:
        if why:
            avoided[why] = avoided.get(why, 0) + 1
            continue
        items.append(("shape", sid, shape))
    n_shapes = len(items)
    cat = eo.arity_catalogue()
    for sid, tree in cat:
        items.append(("cat", sid, tree))
    for sid, src, exp, _ in PINNED:
        items.append(("pin", sid, eo.PRELUDE + src, exp))
    BATCH = 40
    n_fam = {}
    for kind, place, in_fn, shp in eo.disturb_family():
        n_fam["disturb:" + kind] = len(shp)
        for q in range(0, len(shp), BATCH):
            items.append(("batch", "disturb", kind, place, in_fn, shp[q:q + BATCH]))
    for kind, shp in eo.fold_family():
        n_fam["fold:" + kind] = len(shp)
        for q in range(0, len(shp), BATCH):
            items.append(("batch", "fold", kind, None, False, shp[q:q + BATCH]))
    nilc = eo.nil_catalogue()
    n_fam["fold:nil"] = len(nilc)
    items.append(("batch", "foldcat", "nil", None, False, nilc))
    nrand = ctx.n(3000, 45000)
    for i in range(nrand):
        items.append(("rand", "%d/%d" % (ctx.seed, i)))
    results = core.pmap(work, items, chunksize=8)
    agg = {"shapes_enumerated": n_shapes, "shapes_avoided": avoided, "arity_catalogue_cases": len(cat),
           "random_programs": 0, "valuation_sections_compared": 0, "log_and_value_lines_compared": 0,
           "rejected_programs": 0, "model_events": {}, "random_operator_counts": {}, "random_contexts": {},
           "random_root_operators": {}, "random_depth_histogram": {}, "random_with_generated_helpers": 0,
           "max_log_length": 0}
    rejected_examples = []
    samples_shape, samples_rand, samples_fam = [], [], []
    for status, res in results:
        if status != "ok":
            out.inconclusive.append(str(res)[-400:])
            continue
        if res["inconclusive"]:
            out.inconclusive.append(res["inconclusive"])
            continue
        if res["rejected"]:
            agg["rejected_programs"] += 1
            if len(rejected_examples) < 3:
                rejected_examples.append({"id": res["id"], "msg": res["rejected"][-300:],
                                          "src": res.get("reject_src", "")[:400]})
            continue
        out.evaluations += res["runs"]
        agg["valuation_sections_compared"] += res["sections"]
        agg["log_and_value_lines_compared"] += res["lines"]
        for k, v in res["stats"].items():
            agg["model_events"][k] = agg["model_events"].get(k, 0) + v
        if res["kind"] == "rand":
            agg["random_programs"] += 1
            for k, v in res["ops"].items():
                agg["random_operator_counts"][k] = agg["random_operator_counts"].get(k, 0) + v
            core.Outcome.merge_counts(out, agg["random_contexts"], res["context"])
            core.Outcome.merge_counts(out, agg["random_root_operators"], res["root"])
            core.Outcome.merge_counts(out, agg["random_depth_histogram"], str(res["depth"]))
            agg["random_with_generated_helpers"] += 1 if res["helpers"] else 0
            agg["max_log_length"] = max(agg["max_log_length"], res["loglen"])
            if res["loglen"] >= 2:
                out.distinct.add(res["hash"])
            if res["sample"] and len(samples_rand) < 2:
                samples_rand.append(res["sample"])
        elif res["kind"] == "batch":
            for sid in res["ids"]:
                out.distinct.add(core.h([res["id"], sid]))
            agg["family_sections_not_compared"] = agg.get("family_sections_not_compared", 0) + res["not_compared"]
            if res["sample"] and len(samples_fam) < 1:
                samples_fam.append(res["sample"])
        else:
            out.distinct.add(core.h(res["id"]))
            if res["sample"] and len(samples_shape) < 2 and "rec" in res["id"] and "and" in res["id"]:
                samples_shape.append(res["sample"])
        for prob in res["problems"]:
            if res["kind"] == "rand":
                sig = "C15:random:%s:%s" % (res["root"], prob["deviation"])
            elif res["kind"] == "batch":
                sig = "C15:%s:%s:%s" % (res["id"], prob["case"], prob["deviation"])
            else:
                sig = "C15:%s:%s" % (res["id"], prob["deviation"])
            what = "%s: %s differs from left-to-right, exactly-once evaluation with short-circuit" % (
                prob.get("expression", res["id"])[:120], prob["deviation"])
            if res["kind"] == "pin":
                what = [p[3] for p in PINNED if p[0] == res["id"]][0]
            out.violations.append(core.Violation(sig, what, prob))
    out.samples = samples_shape + samples_fam + samples_rand
    agg["family_sections"] = n_fam
    agg["rejected_examples"] = rejected_examples
    agg["avoidance_rules"] = {"none": "index_result_under_unary was lifted after the repair of neg / not on element "
                              "pointers: index, map-index and field expressions are generated in every operand position; "
                              "pin:neg_of_index / pin:not_of_index stay as guards"}
    agg["model_mode"] = MODE
    out.coverage.update(agg)
    out.exhaustive = True
    out.rule = ("deterministic part: every expression shape of depth <= 3 (leaf = depth 1) over the reduced operator "
                "set {-, <, f2(a,b), (mk(a)).m1(b), (ls2(a,b))[t%%2], (lb2(p,q))[t%%2], (o) or i, &&, ||, (map{a:b})[t-c]} with leaves "
                "{t, ra (recursive helper), tb, topt}, plus root-only [a,b] / map{a:b}; one program per shape containing "
                "every valuation (tb value, topt presence, map-key hit/miss) as its own section; arity catalogue f0..f4, "
                "(mk).m0..m4, ov.m0..m4 x argument kinds {t, t-t, ra, rb}; DISTURBANCE family: a read of a mutable place (V) "
                "and a sibling call mutating exactly that place (M) at every position of every depth <= 3 shape over "
                "{-, <, ==, f2, (mk).m1, (ls2)[..], [a,b][0|1], [a,b], map{a:b}, \"c\"+a+b} (inner ops -, f2, m1, index), "
                "for the places module variable, the same variable captured by a function, object field go.gf (mutated "
                "through a method), list element gl[0] (assigned in a helper), bool variable under && || [a,b]; FOLD "
                "family: literal leaves (0, 2, true, false, nil, present literal) next to logging leaves at every "
                "position of the same shapes (+ *), 40 sections per program, the place reset before each.  exhaustive=true refers to these deterministic parts.  "
                "Random part: %d seeded trees of depth <= 4 over the full operator set incl. variable reads, mutating calls "
                "and literals as leaves, in 8 statement contexts.  "
                "evaluations = executions of the real binary compared line by line with the model.  Non-trivial/distinct "
                "= distinct shape id (deterministic part; every shape has >= 2 logging operands) or distinct program text "
                "whose expected log has >= 2 lines (random part)." % nrand)
    out.assumptions = ["helper functions of the prelude behave as their text says (they are straight-line and are "
                       "themselves exercised by every case)",
                       "map values are compared modulo print order of the map",
                       "values stay inside i32 and divisors are non-zero by construction (no run is expected to fail)",
                       "dev-profile build"]
    total = out.evaluations + agg["rejected_programs"]
    if total and agg["rejected_programs"] > 0.02 * total:
        out.observed_nothing = "%d of %d programs rejected by the compiler: generator out of the language" % (
            agg["rejected_programs"], total)
    if out.evaluations == 0:
        out.observed_nothing = "no executions"
    return out


def replay(path):
    with open(os.path.join(path, "case.json")) as f:
        case = json.load(f)
    w = case["witness"]
    src = open(os.path.join(path, "files", "main.ms")).read()
    r = run_src(src)
    exp = w["expected_lines"]
    obs = [eo.canon_value_line(l) for l in r.lines()]
    print("signature:", case["signature"])
    print("expected:", exp)
    print("observed:", r.cls, obs)
    ok = r.cls == 'ok' and obs == exp
    print("AGREES" if ok else "DIFFERS")
    return 0 if ok else 1
