//! `miri_harness <file.ms>`: compile and run one MScript program in-process (no CLI, no dlopen),
//! so that Miri can interpret the interpreter's `unsafe` code on it.
fn main() {
    let path = std::env::args().nth(1).expect("usage: miri_harness <file.ms>");
    let code: &'static str = Box::leak(std::fs::read_to_string(&path).expect("read").into_boxed_str());
    match compiler::eval(code) {
        Ok(()) => println!("@@MIRI-HARNESS ok"),
        Err(errors) => {
            for e in &errors {
                println!("{e:?}");
            }
            println!("@@MIRI-HARNESS failed ({} errors)", errors.len());
        }
    }
}
